#!/usr/bin/env python3
"""Regenerates /verif/MANIFEST.json from the table below (kept in one place so it stays consistent)."""
import json, os
BASE = "for m in $(cat /w/out/gomods.txt); do MF=$(cd /repo/$m && . /w/out/goenv.sh && gomodflag); (cd /repo/$m && go test $MF -json -vet=off -count=1 -timeout 25m ./...); done"
TECH = "bounded symbolic execution of go-plugin's go/ssa form with z3 deciding every branch and assertion"
# id -> (claimed?, level text, level note, technique detail, design ref, has thorough)
CHECKS = json.load(open(os.path.join(os.path.dirname(__file__), "harness", "claims.json")))
checks, na = [], []
for id in sorted(CHECKS):
    c = CHECKS[id]
    if not c.get("claimed"):
        na.append({"property_id": id, "reason": c["reason"]})
        continue
    e = {"property_id": id,
         "quick_cmd": "./gpv check %s --tier quick" % id,
         "evidence_file": "/verif/evidence/%s.json" % id,
         "replay_cmd_template": "./gpv replay {path}",
         "engine": "gpverify",
         "level_claimed": {"category": "model_checking", "text": c["text"], "design_ref": c.get("design_ref", "DESIGN.md section 5, " + id)},
         "level_note": c["note"],
         "technique": c.get("technique", TECH)}
    if c.get("thorough", True):
        e["thorough_cmd"] = "./gpv check %s --tier thorough" % id
    checks.append(e)
m = {"version": 1,
     "setup_cmd": "./gpv build && ./gpv selftest",
     "hooks": {"guard": "verif", "enable": "no hooks are compiled into /repo: harnesses and environment models reach the code through a go/packages overlay (files /repo/zz_verif_*.go exist only in the overlay)", "baseline_off_cmd": BASE, "source_commits": [], "add_only": True},
     "engines": [{"name": "gpverify", "path": "/verif/engine", "serves_properties": [c["property_id"] for c in checks],
                  "kind_free_text": "symbolic executor for Go SSA (golang.org/x/tools/go/ssa) written for this task: interprets go-plugin's real functions instruction by instruction over SMT terms (bit-vectors, uninterpreted string sort with attribute functions), cooperative goroutines with a symbolic clock, stateless DPOR over synchronisation operations, happens-before race detection; z3 4.8.12 over a pipe decides branch feasibility and assertions; 16 workers split the decision tree by prefix"}],
     "checks": checks,
     "not_applicable": na,
     "notes": "Exit codes: 0 held within the stated bound; 1 + VIOLATION line; 2 + INCONCLUSIVE line (unsupported construct, solver unknown, unwinding bound hit, vacuity guard) which is neither a pass nor an alarm. Every run prints a BOUND line with the bound the verdict refers to. See DESIGN.md."}
json.dump(m, open(os.path.join(os.path.dirname(__file__), "MANIFEST.json"), "w"), indent=1)
print("claimed:", [c["property_id"] for c in checks]); print("not_applicable:", [n["property_id"] for n in na])
