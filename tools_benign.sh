#!/bin/bash
# tools_benign.sh <worktree-name> : for every /tmp/mut/<name>-out/benign-*.diff, apply it in the scratch worktree
# /tmp/mut/<name>, run every quick check against THAT tree (VERIF_REPO), and report anything that is not exit 0.
# /repo is not touched; evidence of these scratch runs goes to /tmp/mut/<name>-out/scratch.
WT=$1
W=/tmp/mut/$WT; O=/tmp/mut/$WT-out
export VERIF_REPO=$W VERIF_OUT=$O/scratch
mkdir -p $VERIF_OUT
for d in $O/benign-*.diff; do
  [ -f "$d" ] || continue
  (cd $W && git checkout -q -- . && git apply "$d") || { echo "$WT $(basename $d): patch does not apply"; continue; }
  res=""
  for c in ${BENIGN_CHECKS:-C01 C02 C03 C04 C05 C06 C07 C08 C09 C10 C11 C12 C13 C14 C15 C16 C17 C18 C19 C20}; do
    out=$(cd /verif && timeout 900 ./gpv check $c 2>&1); rc=$?
    if [ $rc -ne 0 ]; then res="$res $c:exit$rc"; echo "$out" | grep "^VIOLATION\|^  what\|^INCONCLUSIVE" | head -4 | sed "s/^/    [$WT $(basename $d) $c] /" | cut -c1-400; fi
  done
  echo "$WT $(basename $d): ${res:- all checks exit 0 (${BENIGN_CHECKS:-all 20})}"
  (cd $W && git checkout -q -- .)
done
