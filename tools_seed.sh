#!/bin/bash
# tools_seed.sh <Cxx> <seed-name> [check-ids...]
# Confirms a sub-agent's seeded change in its scratch worktree /tmp/mut/<Cxx> (builds; suite passes with it; the
# demonstration fails with it and passes without it), stores it under /verif/seeded/<seed-name>/, then applies it
# to /repo, runs the listed checks (default: the property's own) and restores /repo.
set -u
WT=$1; NAME=$2; shift 2
ID=${WT: -3}   # worktree names are Cxx or R<n>Cxx
CHECKS=${@:-$ID}
W=/tmp/mut/$WT; O=/tmp/mut/$WT-out; D=/verif/seeded/$NAME
export GOFLAGS=-mod=mod GOPROXY=off
cd $W || exit 2
DEMO=$(ls zz_demo*_test.go 2>/dev/null | head -1)
[ -z "$DEMO" ] && { echo "no demo test in $W"; exit 2; }
git diff -- . ':!zz_demo*' > /tmp/seed.$ID.diff
[ -s /tmp/seed.$ID.diff ] || { echo "no change in worktree"; exit 2; }
go build ./... || { echo "BUILD FAILS"; exit 2; }
RUNPAT=$(grep -ho '^func Test[A-Za-z0-9_]*' $DEMO | sed 's/func //' | paste -sd'|')
echo "== demo with change ($RUNPAT)"
go test -vet=off -count=1 -run "^($RUNPAT)\$" . > /tmp/seed.$ID.with.log 2>&1; WITH=$?
git apply -R /tmp/seed.$ID.diff
echo "== demo without change"
go test -vet=off -count=1 -run "^($RUNPAT)\$" . > /tmp/seed.$ID.without.log 2>&1; WITHOUT=$?
git apply /tmp/seed.$ID.diff
echo "demo exit with change=$WITH without=$WITHOUT"
echo "== suite with change (demo skipped)"
SUITE=fail
for i in 1 2 3; do
  go test -vet=off -count=1 -json -skip "^($RUNPAT)\$" ./... 2>/dev/null | python3 -c '
import sys,json
f=set()
for l in sys.stdin:
    try: e=json.loads(l)
    except Exception: continue
    if e.get("Test") and e["Action"]=="fail": f.add(e["Test"])
print(" ".join(sorted(f)))' > /tmp/seed.$ID.suite.$i
  echo "run $i failing: $(cat /tmp/seed.$ID.suite.$i)"
  [ -z "$(cat /tmp/seed.$ID.suite.$i)" ] && { SUITE=pass; break; }
done
if [ $SUITE = fail ]; then
  # a test failing in every run is a real failure; anything else is the known flakiness
  STABLE=$(cat /tmp/seed.$ID.suite.* | tr ' ' '\n' | sort | uniq -c | awk '$1==3{print $2}' | paste -sd' ')
  [ -z "$STABLE" ] && SUITE="pass (flaky tests only)" || SUITE="FAIL: $STABLE"
fi
echo "suite: $SUITE"
mkdir -p $D
cp /tmp/seed.$ID.diff $D/patch.diff; cp $DEMO $D/; [ -f $O/NOTES.md ] && cp $O/NOTES.md $D/NOTES.md
RES=""
# the /repo section is serialised so that several seeds can be confirmed in parallel
exec 9>/tmp/mut/.repo.lock; flock 9
cd /repo && git apply $D/patch.diff || { echo "patch does not apply to /repo"; exit 2; }
for c in $CHECKS; do
  OUT=$(cd /verif && ./gpv check $c 2>&1); RC=$?
  echo "== check $c exit=$RC"; echo "$OUT" | grep "^VIOLATION\|^  what\|^INCONCLUSIVE\|^OK" | head -6
  RES="$RES $c:exit$RC"
done
cd /repo && git checkout -- . && git status --short
flock -u 9
python3 - "$ID" "$NAME" "$WITH" "$WITHOUT" "$SUITE" "$RES" "$RUNPAT" <<'PY'
import json,sys
id,name,w,wo,suite,res,pat=sys.argv[1:8]
meta={"breaks_property":id,"demo_test":pat,"demo_exit_with_change":int(w),"demo_exit_without_change":int(wo),"suite_with_change":suite,
 "quick_check_results":res.split(),"ran":["go build ./...","go test -run <demo> (with / without the change)","go test -json ./... with the change (up to 3 runs)","git -C /repo apply patch.diff; ./gpv check <id>; git -C /repo checkout -- ."]}
try:
    old=json.load(open("/verif/seeded/%s/meta.json"%name)); meta["needs"]=old.get("needs","")
except Exception: pass
json.dump(meta,open("/verif/seeded/%s/meta.json"%name,"w"),indent=1)
PY
rm -f /tmp/seed.$ID.*
