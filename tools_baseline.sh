#!/bin/sh
# Runs /repo's test suite the way BASELINE.json does (guard off) and lists tests that fail in every one of N runs.
N=${1:-2}
cd /repo
for i in $(seq 1 $N); do
  go test -mod=mod -json -vet=off -count=1 -timeout 25m ./... 2>/dev/null | python3 -c '
import sys,json
f=set(); p=set()
for l in sys.stdin:
    try: e=json.loads(l)
    except Exception: continue
    if e.get("Test"):
        if e["Action"]=="fail": f.add(e["Package"]+"::"+e["Test"])
        if e["Action"]=="pass": p.add(e["Package"]+"::"+e["Test"])
print("pass",len(p),"fail",sorted(f))
for t in sorted(f): print("F",t)
' > /tmp/baseline.$i.out
  head -1 /tmp/baseline.$i.out
done
cat /tmp/baseline.*.out | grep '^F ' | sort | uniq -c | awk -v n=$N '$1==n {print "STABLE-FAIL", $3}'
rm -f /tmp/baseline.*.out
