#!/usr/bin/env python3
"""Validate MANIFEST.json and evidence files against the schemas (run with python3-vt)."""
import json, sys, glob, jsonschema
ok = True
def v(path, schema):
    global ok
    try:
        jsonschema.validate(json.load(open(path)), json.load(open(schema)))
        print("valid  ", path)
    except Exception as e:
        ok = False
        print("INVALID", path, str(e)[:400])
v("/verif/MANIFEST.json", "/root/.vp/MANIFEST.schema.json")
for f in sorted(glob.glob("/verif/evidence/*.json")):
    v(f, "/root/.vp/EVIDENCE.schema.json")
sys.exit(0 if ok else 1)
