#!/usr/bin/env python3
"""Rewrites the table of registered runs in DESIGN.md (between the BEGIN/END RUNS markers) from harness/spec/*.json."""
import json, glob, os, re
rows = []
for f in sorted(glob.glob('/verif/harness/spec/C*.json')):
    sp = json.load(open(f))
    for r in sp['runs']:
        for tier in ('quick', 'thorough'):
            t = r['tiers'].get(tier)
            if not t or t.get('skip'):
                continue
            dpor = t.get('dpor', r.get('dpor', False))
            sched = 'canonical'
            if dpor:
                sched = 'DPOR <= %d rev.' % t.get('max_reversals', 0)
                if t.get('race'):
                    sched += ' + race det.'
            nat = ' (native validation: %s)' % r['native'] if r.get('native') else ''
            rows.append('| %s | %s | %s | %s | %s%s |' % (sp['property'], r['name'], tier, sched, t.get('bound', '').replace('|', '/'), nat))
table = '| Property | Run | Tier | Scheduler | Bound |\n|---|---|---|---|---|\n' + '\n'.join(rows) + '\n'
p = '/verif/DESIGN.md'
s = open(p).read()
b, e = '<!-- BEGIN RUNS -->\n', '<!-- END RUNS -->\n'
if b in s:
    s = s[:s.index(b) + len(b)] + table + s[s.index(e):]
open(p, 'w').write(s)
print(len(rows), 'rows')
