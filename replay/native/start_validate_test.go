package plugin

// Native validation template for the handshake family (C01, C05): each case is a concretised symbolic path of the
// harness harnessC01 (a first stdout line, a process behaviour, a client configuration) together with the outcome the
// symbolic executor predicted. The real Client.Start is run on it with a scripted runner; a disagreement means the
// interpreter, a model or an axiom is wrong.

import (
	"context"
	"crypto/tls"
	"encoding/base64"
	"encoding/json"
	"encoding/pem"
	"fmt"
	"io"
	"os"
	"os/exec"
	"strings"
	"sync"
	"testing"
	"time"

	"github.com/hashicorp/go-hclog"
	"github.com/hashicorp/go-plugin/runner"
)

type vvRunner struct {
	mode         int
	line         string
	outR, errR   *io.PipeReader
	outW, errW   *io.PipeWriter
	dead         chan struct{}
	once         sync.Once
	killed       int
}

func (r *vvRunner) die() {
	r.once.Do(func() { close(r.dead); r.outW.Close(); r.errW.Close() })
}
func (r *vvRunner) Start(ctx context.Context) error {
	switch r.mode {
	case 0:
		go func() { r.outW.Write([]byte(r.line + "\n")) }()
	case 1:
		r.outW.Close() // stdout reaches EOF while the process stays alive
	case 3:
		r.die() // exits before any output
	}
	return nil
}
func (r *vvRunner) Diagnose(ctx context.Context) string                { return "" }
func (r *vvRunner) Stdout() io.ReadCloser                             { return r.outR }
func (r *vvRunner) Stderr() io.ReadCloser                             { return r.errR }
func (r *vvRunner) Name() string                                      { return "vplugin" }
func (r *vvRunner) Wait(ctx context.Context) error                    { <-r.dead; return nil }
func (r *vvRunner) Kill(ctx context.Context) error                    { r.killed++; r.die(); return nil }
func (r *vvRunner) ID() string                                        { return "v1" }
func (r *vvRunner) PluginToHost(n, a string) (string, string, error)  { return n, a, nil }
func (r *vvRunner) HostToPlugin(n, a string) (string, string, error)  { return n, a, nil }

func TestVerifValidateStart(t *testing.T) {
	f := os.Getenv("VERIF_CASES")
	if f == "" {
		t.Skip("no cases")
	}
	b, err := os.ReadFile(f)
	if err != nil {
		t.Fatal(err)
	}
	var cases []map[string]interface{}
	dec := json.NewDecoder(strings.NewReader(string(b)))
	dec.UseNumber() // 64-bit values must not go through float64
	if err := dec.Decode(&cases); err != nil {
		t.Fatal(err)
	}
	certPEM, _, err := generateCert()
	if err != nil {
		t.Fatal(err)
	}
	blk, _ := pem.Decode(certPEM)
	realCert := base64.RawStdEncoding.EncodeToString(blk.Bytes)
	num := func(c map[string]interface{}, k string) int64 {
		if v, ok := c[k].(json.Number); ok {
			n, _ := v.Int64()
			return n
		}
		return 0
	}
	for _, c := range cases {
		id := fmt.Sprint(c["id"])
		line, _ := c["line"].(string)
		line = strings.ReplaceAll(line, "@CERT@", realCert)
		mode := int(num(c, "mode"))
		tLine := num(c, "tLine")
		timeout := 60 * time.Second
		if mode == 2 || (mode == 0 && tLine > int64(60*time.Second)) {
			timeout = 300 * time.Millisecond
			if mode == 0 {
				mode = 2 // a line that arrives after the start timeout: silence, as far as Start can see
			}
		}
		r := &vvRunner{mode: mode, line: line, dead: make(chan struct{})}
		r.outR, r.outW = io.Pipe()
		r.errR, r.errW = io.Pipe()
		var allowed []Protocol
		switch num(c, "allowed") {
		case 1:
			allowed = []Protocol{Protocol(fmt.Sprint(c["allowed0"]))}
		case 2:
			allowed = []Protocol{ProtocolNetRPC, ProtocolGRPC}
		}
		var tlsCfg *tls.Config
		if num(c, "tls") == 1 {
			tlsCfg = &tls.Config{}
		}
		cfg := &ClientConfig{
			HandshakeConfig:     HandshakeConfig{ProtocolVersion: uint(num(c, "pv")), MagicCookieKey: "K", MagicCookieValue: "V"},
			Plugins:             PluginSet{},
			AllowedProtocols:    allowed,
			TLSConfig:           tlsCfg,
			GRPCBrokerMultiplex: num(c, "mux") == 1,
			Logger:              hclog.NewNullLogger(),
			StartTimeout:        timeout,
			RunnerFunc:          func(l hclog.Logger, cmd *exec.Cmd, tmp string) (runner.Runner, error) { return r, nil },
		}
		cl := NewClient(cfg)
		var gotErr error
		panicked := true
		var addrNil bool
		func() {
			defer func() { recover() }()
			addr, err := cl.Start()
			gotErr, addrNil = err, addr == nil
			panicked = false
		}()
		var diffs []string
		if (gotErr != nil) != (num(c, "out.err") == 1) {
			diffs = append(diffs, fmt.Sprintf("err real=%v predicted=%v", gotErr, num(c, "out.err") == 1))
		}
		if panicked != (num(c, "out.panic") == 1) {
			diffs = append(diffs, fmt.Sprintf("panic real=%v", panicked))
		}
		if (r.killed >= 1) != (num(c, "out.killed") >= 1) {
			diffs = append(diffs, fmt.Sprintf("killed real=%d predicted=%d", r.killed, num(c, "out.killed")))
		}
		if gotErr == nil && !panicked {
			if string(cl.protocol) != fmt.Sprint(c["out.proto"]) {
				diffs = append(diffs, fmt.Sprintf("protocol real=%q predicted=%q", cl.protocol, c["out.proto"]))
			}
			if int64(cl.negotiatedVersion) != num(c, "out.ver") {
				diffs = append(diffs, fmt.Sprintf("version real=%d predicted=%d", cl.negotiatedVersion, num(c, "out.ver")))
			}
			if addrNil != (num(c, "out.addrnil") == 1) {
				diffs = append(diffs, fmt.Sprintf("addr-nil real=%v", addrNil))
			}
		}
		cl.Kill()
		if len(diffs) == 0 {
			fmt.Printf("VALIDATED %s line=%q\n", id, line)
		} else {
			fmt.Printf("MISMATCH %s line=%q %s\n", id, line, strings.Join(diffs, "; "))
		}
	}
}
