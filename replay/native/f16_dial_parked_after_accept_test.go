package plugin

import (
	"net"
	"sync"
	"testing"
	"time"

	"github.com/hashicorp/yamux"
)

type f16Conn struct {
	net.Conn
	mu     sync.Mutex
	closed bool
}

func (c *f16Conn) Close() error { c.mu.Lock(); c.closed = true; c.mu.Unlock(); return nil }
func (c *f16Conn) isClosed() bool { c.mu.Lock(); defer c.mu.Unlock(); return c.closed }

// Deterministic: the state Run leaves when a second stream for the ID is parked after Accept took the first one and
// before the expiry handler of the first removed the entry.
func TestF16ParkedAfterAcceptIsClosed(t *testing.T) {
	m := newMuxBroker(nil)
	p := m.getStream(7)
	s1, s2 := &f16Conn{}, &f16Conn{}
	p.ch <- s1 // Run parks the first dial
	<-p.ch     // Accept takes it ...
	close(p.doneCh)
	p.ch <- s2 // Run parks a second dial to the same ID: the entry is still in the table
	m.timeoutWait(7, p) // the expiry handler sees "picked up"
	if !s2.isClosed() {
		t.Fatalf("a connection parked after the accept was left open: its dialer waits for an ack for ever")
	}
}

// Through the public API: two dials and one accept for the same ID, many rounds; a Dial that neither succeeds nor fails
// within 8 s is the leak.
func TestF16DuplicateDialRacingAccept(t *testing.T) {
	for round := 0; round < 20; round++ {
		a, b := net.Pipe()
		sa, _ := yamux.Server(a, nil)
		sb, _ := yamux.Client(b, nil)
		ma, mb := newMuxBroker(sa), newMuxBroker(sb)
		go ma.Run()
		go mb.Run()
		res := make(chan error, 2)
		for i := 0; i < 2; i++ {
			go func() { _, err := mb.Dial(7); res <- err }()
		}
		go ma.Accept(7)
		deadline := time.After(8 * time.Second)
		for i := 0; i < 2; i++ {
			select {
			case <-res:
			case <-deadline:
				t.Fatalf("round %d: a dial is still blocked after 8 s", round)
			}
		}
		sa.Close()
		sb.Close()
	}
}
