package plugin

// Native validation template for C13: sampled symbolic paths of harnessC13 (digest bytes, checksum bytes, hash
// present or not, file readable or not) are run through the real SecureConfig.Check.

import (
	"encoding/json"
	"fmt"
	"os"
	"path/filepath"
	"strconv"
	"strings"
	"testing"
)

type vvHash struct{ sum []byte }

func (h *vvHash) Write(p []byte) (int, error) { return len(p), nil }
func (h *vvHash) Sum(b []byte) []byte          { return h.sum }
func (h *vvHash) Reset()                       {}
func (h *vvHash) Size() int                    { return len(h.sum) }
func (h *vvHash) BlockSize() int               { return 1 }

func vvBV(s string) int64 {
	s = strings.TrimSpace(s)
	s = strings.TrimSuffix(strings.TrimPrefix(s, "(("), "))")
	if i := strings.LastIndex(s, " "); i >= 0 {
		s = s[i+1:]
	}
	if strings.HasPrefix(s, "#x") {
		u, _ := strconv.ParseUint(s[2:], 16, 64)
		return int64(u)
	}
	if s == "true" {
		return 1
	}
	return 0
}

func vvBytes(in map[string]interface{}, tag string) []byte {
	n := 0
	for k, v := range in {
		if strings.HasPrefix(k, tag+"_len!") {
			n = int(vvBV(fmt.Sprint(v)))
		}
	}
	out := make([]byte, n)
	for k, v := range in {
		for i := 0; i < n; i++ {
			if strings.HasPrefix(k, fmt.Sprintf("%s_%d!", tag, i)) {
				out[i] = byte(vvBV(fmt.Sprint(v)))
			}
		}
	}
	return out
}

func TestVerifValidateCheck(t *testing.T) {
	f := os.Getenv("VERIF_CASES")
	if f == "" {
		t.Skip("no cases")
	}
	b, err := os.ReadFile(f)
	if err != nil {
		t.Fatal(err)
	}
	var cases []map[string]interface{}
	dec := json.NewDecoder(strings.NewReader(string(b)))
	dec.UseNumber() // 64-bit values must not go through float64
	if err := dec.Decode(&cases); err != nil {
		t.Fatal(err)
	}
	good := filepath.Join(t.TempDir(), "plugin-binary")
	os.WriteFile(good, []byte("binary"), 0o755)
	for _, c := range cases {
		in, _ := c["inputs"].(map[string]interface{})
		d, ck := vvBytes(in, "d"), vvBytes(in, "c")
		sc := &SecureConfig{Checksum: ck}
		if fmt.Sprint(c["hashNil"]) != "1" {
			sc.Hash = &vvHash{sum: d}
		}
		path := good
		if fmt.Sprint(c["openFails"]) == "1" {
			path = filepath.Join(t.TempDir(), "missing")
		}
		ok, err := sc.Check(path)
		if ok == (fmt.Sprint(c["out.ok"]) == "1") && (err != nil) == (fmt.Sprint(c["out.err"]) == "1") {
			fmt.Printf("VALIDATED %v digest=%x checksum=%x\n", c["id"], d, ck)
		} else {
			fmt.Printf("MISMATCH %v digest=%x checksum=%x real ok=%v err=%v predicted ok=%v err=%v\n", c["id"], d, ck, ok, err, c["out.ok"], c["out.err"])
		}
	}
}
