//go:build !windows

package plugin

import (
	"os"
	"path/filepath"
	"testing"

	"github.com/hashicorp/go-hclog"
)

// F14 (property C18): after a graceful Kill the plugin's brokered listener socket may be left behind - the goroutine
// that closes it (AcceptAndServe's deferred ln.Close, woken by the broker's doneCh) races with the plugin's exit.
func TestVerifF14PluginBrokeredSocketLeftAfterGracefulExit(t *testing.T) {
	if os.Getenv("GO_WANT_HELPER_PROCESS") == "1" {
		return
	}
	rounds, left, graceful := 60, 0, 0
	for i := 0; i < rounds; i++ {
		base := t.TempDir()
		process := helperProcess("test-grpc")
		process.Env = append(process.Env, "TMPDIR="+base)
		c := NewClient(&ClientConfig{Cmd: process, HandshakeConfig: testHandshake, Plugins: testGRPCPluginMap,
			AllowedProtocols: []Protocol{ProtocolGRPC}, Logger: hclog.NewNullLogger()})
		client, err := c.Client()
		if err != nil {
			c.Kill()
			t.Fatal(err)
		}
		raw, err := client.Dispense("test")
		if err != nil {
			c.Kill()
			t.Fatal(err)
		}
		if err := raw.(*testGRPCClient).Bidirectional(); err != nil {
			c.Kill()
			t.Fatal(err)
		}
		c.Kill()
		if c.killed() {
			continue
		}
		graceful++
		if files, _ := filepath.Glob(filepath.Join(base, "plugin*")); len(files) > 0 {
			left++
			t.Logf("round %d: left after graceful exit: %v", i, files)
		}
	}
	t.Logf("graceful rounds: %d, rounds with a socket left behind: %d", graceful, left)
	if left > 0 {
		t.Errorf("socket files left behind after a graceful shutdown in %d of %d graceful rounds", left, graceful)
	}
}
