package plugin

import (
	"crypto/sha256"
	"os"
	"path/filepath"
	"testing"
)

// A SecureConfig used for a second check (a host restarting its plugin from the same configuration): the file is
// unchanged and still matches the checksum.
func TestF17SecureConfigCheckedTwice(t *testing.T) {
	dir := t.TempDir()
	path := filepath.Join(dir, "plugin")
	content := []byte("#!/bin/sh\nexit 0\n")
	if err := os.WriteFile(path, content, 0o755); err != nil {
		t.Fatal(err)
	}
	sum := sha256.Sum256(content)
	sc := &SecureConfig{Checksum: sum[:], Hash: sha256.New()}
	for i := 1; i <= 2; i++ {
		ok, err := sc.Check(path)
		if err != nil || !ok {
			t.Fatalf("check %d of an unchanged, matching binary: ok=%v err=%v", i, ok, err)
		}
	}
}
