package plugin

// Native validation template for C02: sampled symbolic paths of harnessC02a (two host versions, two plugin versions)
// are run through the real protocolVersion and checkProtoVersion.

import (
	"encoding/json"
	"fmt"
	"os"
	"strconv"
	"strings"
	"testing"
)

func vv64(in map[string]interface{}, tag string) int {
	for k, v := range in {
		if strings.HasPrefix(k, tag+"!") {
			s := fmt.Sprint(v)
			s = strings.TrimSuffix(strings.TrimPrefix(strings.TrimSpace(s), "(("), "))")
			if i := strings.LastIndex(s, " "); i >= 0 {
				s = s[i+1:]
			}
			u, _ := strconv.ParseUint(strings.TrimPrefix(s, "#x"), 16, 64)
			return int(int64(u))
		}
	}
	return 0
}

func TestVerifValidateVersion(t *testing.T) {
	f := os.Getenv("VERIF_CASES")
	if f == "" {
		t.Skip("no cases")
	}
	b, err := os.ReadFile(f)
	if err != nil {
		t.Fatal(err)
	}
	var cases []map[string]interface{}
	dec := json.NewDecoder(strings.NewReader(string(b)))
	dec.UseNumber() // 64-bit values must not go through float64
	if err := dec.Decode(&cases); err != nil {
		t.Fatal(err)
	}
	for _, c := range cases {
		in, _ := c["inputs"].(map[string]interface{})
		h1, h2, p1, p2 := vv64(in, "h1"), vv64(in, "h2"), vv64(in, "p1"), vv64(in, "p2")
		host := &ClientConfig{VersionedPlugins: map[int]PluginSet{h1: {"a": &testInterfacePlugin{}}, h2: {"b": &testInterfacePlugin{}}}}
		serve := &ServeConfig{VersionedPlugins: map[int]PluginSet{p1: {"a": &testInterfacePlugin{}}, p2: {"b": &testInterfacePlugin{}}}}
		t.Setenv("PLUGIN_PROTOCOL_VERSIONS", strconv.Itoa(h1)+","+strconv.Itoa(h2))
		ver, _, _ := protocolVersion(serve)
		cl := &Client{config: host}
		got, _, err := cl.checkProtoVersion(strconv.Itoa(ver))
		n64 := func(k string) int {
			n, _ := c[k].(json.Number).Int64()
			return int(n)
		}
		pv, pe, pg := n64("out.ver"), fmt.Sprint(c["out.err"]) == "1", n64("out.got")
		if ver == pv && (err != nil) == pe && (pe || got == pg) {
			fmt.Printf("VALIDATED %v host={%d,%d} plugin={%d,%d} -> %d\n", c["id"], h1, h2, p1, p2, ver)
		} else {
			fmt.Printf("MISMATCH %v host={%d,%d} plugin={%d,%d} real ver=%d err=%v got=%d predicted ver=%d err=%v got=%d\n", c["id"], h1, h2, p1, p2, ver, err, got, pv, pe, pg)
		}
	}
}
