//go:build !windows

package plugin

import (
	"os"
	"os/exec"
	"path/filepath"
	"testing"
	"time"
)

// Helper process: serves the net/rpc test plugin; when asked to shut down it needs one second of clean-up, then
// writes a marker and exits by itself - well inside Kill's two-second grace period.
func TestVerifF13Helper(t *testing.T) {
	marker := os.Getenv("VERIF_F13_MARKER")
	if marker == "" {
		return
	}
	defer os.Exit(0)
	Serve(&ServeConfig{HandshakeConfig: testHandshake, Plugins: testPluginMap})
	time.Sleep(time.Second)
	os.WriteFile(marker, []byte("clean exit"), 0o644)
}

// F13 (property C04): two overlapping Kill calls on a plugin that exits on its own inside the grace period.
// The plugin must be allowed to finish its clean-up: it must not be force-killed.
func TestVerifF13ConcurrentKillForceKillsCooperativePlugin(t *testing.T) {
	for _, proto := range []string{"netrpc"} {
		marker := filepath.Join(t.TempDir(), "clean-"+proto)
		cmd := exec.Command(os.Args[0], "-test.run=TestVerifF13Helper")
		cmd.Env = append(os.Environ(), "VERIF_F13_MARKER="+marker)
		c := NewClient(&ClientConfig{Cmd: cmd, HandshakeConfig: testHandshake, Plugins: testPluginMap})
		if _, err := c.Client(); err != nil {
			c.Kill()
			t.Fatal(err)
		}
		done := make(chan struct{}, 2)
		go func() { c.Kill(); done <- struct{}{} }()
		time.Sleep(100 * time.Millisecond)
		go func() { c.Kill(); done <- struct{}{} }()
		<-done
		<-done
		_, err := os.Stat(marker)
		if c.killed() || err != nil {
			t.Errorf("%s: force-killed=%v, clean-up marker present=%v: a plugin exiting inside the grace period was force-killed by the overlapping Kill", proto, c.killed(), err == nil)
		}
	}
}
