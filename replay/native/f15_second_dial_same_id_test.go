package plugin

import (
	"net"
	"testing"
	"time"

	"github.com/hashicorp/yamux"
)

func TestF15SecondDialSameIDIsClosed(t *testing.T) {
	a, b := net.Pipe()
	sa, _ := yamux.Server(a, nil)
	sb, _ := yamux.Client(b, nil)
	ma, mb := newMuxBroker(sa), newMuxBroker(sb)
	go ma.Run()
	go mb.Run()
	res := make(chan error, 2)
	for i := 0; i < 2; i++ {
		go func() {
			_, err := mb.Dial(7)
			res <- err
		}()
		time.Sleep(100 * time.Millisecond)
	}
	deadline := time.After(12 * time.Second)
	for i := 0; i < 2; i++ {
		select {
		case err := <-res:
			t.Logf("dial returned: %v", err)
		case <-deadline:
			t.Fatalf("dial %d still blocked after 12 s", i+1)
		}
	}
}
