#!/bin/bash
# Re-runs every committed benign refactor (benign/set*/benign-*.diff) against the current checks: each is applied in a
# scratch worktree of /repo's HEAD and all 20 quick checks are run against that tree. Any non-zero exit is a false alarm.
W=/tmp/mut/BEN
git -C /repo worktree remove --force $W 2>/dev/null
git -C /repo worktree add -q --detach $W HEAD || exit 2
for s in /verif/benign/set*/; do
  rm -rf /tmp/mut/BEN-out; mkdir -p /tmp/mut/BEN-out
  for d in $s/benign-[0-9].diff $s/benign-*-rebased.diff; do [ -f "$d" ] || continue; [ "$(basename $d)" = "benign-5.diff" ] && [ -f "$s/benign-5-rebased.diff" ] && continue; cp $d /tmp/mut/BEN-out/$(basename $s)-$(basename $d | sed 's/^benign-//'); done
  for d in /tmp/mut/BEN-out/*.diff; do mv $d /tmp/mut/BEN-out/benign-$(basename $d); done
  /verif/tools_benign.sh BEN
done
git -C /repo worktree remove --force $W
rm -rf /tmp/mut/BEN-out
