package main

import (
	"encoding/json"
	"flag"
	"fmt"
	"os"
	"path/filepath"
	"regexp"
	"sort"
	"strconv"
	"strings"
	"time"
)

// ---- spec (harness/spec.json) ----

type TierSpec struct {
	Skip      bool             `json:"skip,omitempty"`
	DPOR      *bool            `json:"dpor,omitempty"`
	MaxRev    int              `json:"max_reversals,omitempty"`
	Race      bool             `json:"race,omitempty"`
	Params    map[string]int64 `json:"params,omitempty"`
	Bound     string           `json:"bound,omitempty"`
	StepLimit int              `json:"step_limit,omitempty"`
	Unwind    int              `json:"unwind,omitempty"`
	Witness   int              `json:"witness,omitempty"`
	MaxWallS  int              `json:"max_wall_s,omitempty"`
}

type RunSpec struct {
	Name      string              `json:"name"`
	Entry     string              `json:"entry"`
	DPOR      bool                `json:"dpor,omitempty"`
	NoMapPerm bool                `json:"no_map_perm,omitempty"`
	NoSelectFork bool             `json:"no_select_fork,omitempty"`
	Covers    []string            `json:"covers,omitempty"`
	Tiers     map[string]TierSpec `json:"tiers"`
	Native    string              `json:"native,omitempty"` // replay template used to validate paths natively
	Files     []string            `json:"files,omitempty"`  // harness files of this run when they differ from the property's
}

type PropSpec struct {
	Property    string    `json:"property"`
	Files       []string  `json:"files"`
	Runs        []RunSpec `json:"runs"`
	Assumptions []string  `json:"assumptions"`
	Stubs       []string  `json:"stubs"`
	Outside     string    `json:"outside"`
}

type KnownFinding struct {
	Property  string `json:"property"`
	Signature string `json:"signature"` // regular expression over Violation.Signature()
	What      string `json:"what"`
	Status    string `json:"status"` // known | fixed
	Commit    string `json:"commit,omitempty"`
	Replay    string `json:"replay,omitempty"`
}

func loadSpec(id string) (*PropSpec, error) {
	b, err := os.ReadFile(filepath.Join(verifDir, "harness", "spec", id+".json"))
	if err != nil {
		return nil, err
	}
	var sp PropSpec
	if err := json.Unmarshal(b, &sp); err != nil {
		return nil, fmt.Errorf("spec %s: %v", id, err)
	}
	if sp.Property != id {
		return nil, fmt.Errorf("spec %s names property %q", id, sp.Property)
	}
	return &sp, nil
}

func loadKnown() []KnownFinding {
	var k []KnownFinding
	if b, err := os.ReadFile(filepath.Join(verifDir, "known_findings.json")); err == nil {
		if err := json.Unmarshal(b, &k); err != nil {
			fmt.Fprintln(os.Stderr, "known_findings.json:", err)
		}
	}
	return k
}

func main() {
	if len(os.Args) < 2 {
		fmt.Fprintln(os.Stderr, "usage: gpverify check <Cxx> [--tier quick|thorough] | run <entry> <files...> | replay <file> | selftest")
		os.Exit(2)
	}
	switch os.Args[1] {
	case "check":
		os.Exit(cmdCheck(os.Args[2:]))
	case "run":
		os.Exit(cmdRun(os.Args[2:]))
	case "replay":
		os.Exit(cmdReplay(os.Args[2:]))
	case "externals":
		os.Exit(cmdExternals())
	case "selftest":
		os.Exit(cmdSelftest(os.Args[2:]))
	}
	fmt.Fprintln(os.Stderr, "unknown command", os.Args[1])
	os.Exit(2)
}

func harnessPaths(files []string) []string {
	var out []string
	for _, f := range files {
		if !filepath.IsAbs(f) {
			f = filepath.Join(verifDir, "harness", f)
		}
		out = append(out, f)
	}
	return out
}

// cmdRun: development entry point. gpverify run [-dpor N] [-race] [-p k=v] <entry> <harness files...>
func cmdRun(args []string) int {
	fs := flag.NewFlagSet("run", flag.ExitOnError)
	dpor := fs.Int("dpor", -1, "DPOR with this many reversals")
	race := fs.Bool("race", false, "happens-before race detection")
	workers := fs.Int("j", 16, "workers")
	params := fs.String("p", "", "k=v,k=v harness parameters")
	overlay := fs.String("overlay", "", "/repo/file.go=replacement (mutant)")
	verbose := fs.Bool("v", false, "print violation models")
	nomap := fs.Bool("nomap", false, "do not permute map iteration order")
	nosel := fs.Bool("nosel", false, "a select with several ready cases takes the first instead of forking")
	fs.Parse(args)
	rest := fs.Args()
	if len(rest) < 2 {
		fmt.Fprintln(os.Stderr, "run: need <entry> <files...>")
		return 2
	}
	extra := map[string]string{}
	if *overlay != "" {
		kv := strings.SplitN(*overlay, "=", 2)
		extra[kv[0]] = kv[1]
	}
	t0 := time.Now()
	p, err := loadProgram(harnessPaths(rest[1:]), extra)
	if err != nil {
		fmt.Fprintln(os.Stderr, err)
		return 2
	}
	cfg := RunCfg{Name: rest[0], Entry: rest[0], Workers: *workers, Race: *race, Params: map[string]int64{}, NoMapPerm: *nomap, NoSelectFork: *nosel}
	if *dpor >= 0 {
		cfg.DPOR, cfg.MaxRev = true, *dpor
	}
	if *params != "" {
		for _, kv := range strings.Split(*params, ",") {
			p := strings.SplitN(kv, "=", 2)
			n, _ := strconv.ParseInt(p[1], 10, 64)
			cfg.Params[p[0]] = n
		}
	}
	fmt.Printf("load %.1fs\n", time.Since(t0).Seconds())
	res, err := explore(p, cfg)
	if err != nil {
		fmt.Fprintln(os.Stderr, err)
		return 2
	}
	printResult(res, *verbose)
	return 0
}

func printResult(res *RunResult, verbose bool) {
	fmt.Printf("run %s: explore %.1fs paths=%d nodes=%d edges=%d steps=%d queries=%d (assertion %d) solver=%.1fs\n", res.Cfg.Name,
		res.Wall.Seconds(), res.Paths, res.Nodes, res.Edges, res.Steps, res.Queries, res.AssertQ, res.SolverDur.Seconds())
	fmt.Println("  path ends:", sortedCounts(res.Ends))
	fmt.Println("  covers:", sortedCounts(res.Covers))
	if len(res.Inconc) > 0 {
		fmt.Println("  inconclusive:", sortedCounts(res.Inconc))
	}
	var sigs []string
	for s := range res.Viols {
		sigs = append(sigs, s)
	}
	sort.Strings(sigs)
	for _, s := range sigs {
		g := res.Viols[s]
		fmt.Printf("  CANDIDATE x%d %s\n", g.Count, s)
		if verbose {
			b, _ := json.Marshal(g.First.Model)
			fmt.Printf("      model %s\n      decisions %v\n", b, g.First.Decisions)
			if g.First.Witness != nil {
				b, _ := json.Marshal(g.First.Witness)
				fmt.Printf("      witness %s\n", b)
			}
			if g.First.Where != "" {
				fmt.Printf("      where %s\n", g.First.Where)
			}
			for _, t := range g.First.Trace {
				fmt.Println("      ", t)
			}
		}
	}
	if verbose {
		var names []string
		for n, c := range res.FnSteps {
			if strings.Contains(n, "go-plugin") && !isHarnessFn(n) {
				names = append(names, fmt.Sprintf("%s:%d", n, c))
			}
		}
		sort.Strings(names)
		fmt.Println("  repo functions executed:", names)
	}
}

var harnessFnRe = regexp.MustCompile(`go-plugin\.(\(\*?)?(v[A-Z]|m[A-Z]|harness|c[0-9][0-9])`)

func isHarnessFn(n string) bool { return harnessFnRe.MatchString(n) }

func sortedCounts(m map[string]int) string {
	var ks []string
	for k := range m {
		ks = append(ks, k)
	}
	sort.Strings(ks)
	var b strings.Builder
	for _, k := range ks {
		fmt.Fprintf(&b, "[%s:%d] ", k, m[k])
	}
	return b.String()
}
