package main

import (
	"fmt"
	"go/token"
	"go/types"
)

// sync.RWMutex, sync/atomic and the process environment as engine primitives.

type rwState struct {
	writer  bool
	readers int
}

func (it *Interp) rw(p Ptr) *rwState {
	k := ptrKey(p)
	if it.sch.rw == nil {
		it.sch.rw = map[string]*rwState{}
	}
	if it.sch.rw[k] == nil {
		it.sch.rw[k] = &rwState{}
	}
	return it.sch.rw[k]
}

func envKey(proc int, k string) string { return fmt.Sprintf("%d|%s", proc, k) }

func init() {
	more := map[string]func(it *Interp, args []Value) Value{
		"(*sync.RWMutex).Lock": func(it *Interp, a []Value) Value {
			p := a[0].(Ptr)
			it.preemptPoint()
			st := it.rw(p)
			it.visibleWhen("lock", "mu"+ptrKey(p), func() bool { return !st.writer && st.readers == 0 })
			it.block("rwmutex", func() bool { return !st.writer && st.readers == 0 }, nil)
			st.writer = true
			return nil
		},
		"(*sync.RWMutex).Unlock": func(it *Interp, a []Value) Value {
			p := a[0].(Ptr)
			it.visible("unlock", "mu"+ptrKey(p))
			st := it.rw(p)
			if !st.writer {
				panic(&goPanic{msg: "sync: Unlock of unlocked RWMutex"})
			}
			st.writer = false
			return nil
		},
		"(*sync.RWMutex).RLock": func(it *Interp, a []Value) Value {
			p := a[0].(Ptr)
			it.preemptPoint()
			st := it.rw(p)
			it.visibleWhen("lock", "mu"+ptrKey(p), func() bool { return !st.writer })
			it.block("rwmutex(read)", func() bool { return !st.writer }, nil)
			st.readers++
			return nil
		},
		"(*sync.RWMutex).RUnlock": func(it *Interp, a []Value) Value {
			p := a[0].(Ptr)
			it.visible("unlock", "mu"+ptrKey(p))
			st := it.rw(p)
			if st.readers <= 0 {
				panic(&goPanic{msg: "sync: RUnlock of unlocked RWMutex"})
			}
			st.readers--
			return nil
		},
		"(*sync.Mutex).TryLock": func(it *Interp, a []Value) Value {
			p := a[0].(Ptr)
			it.visible("lock", "mu"+ptrKey(p))
			k := ptrKey(p)
			if it.sch.locks[k] {
				return false
			}
			it.sch.locks[k] = true
			return true
		},
		"os.LookupEnv": func(it *Interp, a []Value) Value {
			k, ok := a[0].(*StrV).isConc()
			if !ok {
				it.unsup("LookupEnv symbolic key")
			}
			if v, ok := it.penv[envKey(it.sch.cur.proc, k)]; ok {
				return TupleV{v, true}
			}
			return TupleV{conc(""), false}
		},
		"os.Getenv": func(it *Interp, a []Value) Value {
			k, ok := a[0].(*StrV).isConc()
			if !ok {
				it.unsup("Getenv symbolic key")
			}
			if v, ok := it.penv[envKey(it.sch.cur.proc, k)]; ok {
				return v
			}
			return conc("")
		},
		"os.Setenv": func(it *Interp, a []Value) Value {
			k, ok := a[0].(*StrV).isConc()
			if !ok {
				it.unsup("Setenv symbolic key")
			}
			it.penv[envKey(it.sch.cur.proc, k)] = a[1].(*StrV)
			return IfaceV{}
		},
		"os.Unsetenv": func(it *Interp, a []Value) Value {
			k, _ := a[0].(*StrV).isConc()
			delete(it.penv, envKey(it.sch.cur.proc, k))
			return IfaceV{}
		},
		P + "vSetenv": func(it *Interp, a []Value) Value {
			k, _ := a[0].(*StrV).isConc()
			it.penv[envKey(it.sch.cur.proc, k)] = a[1].(*StrV)
			return nil
		},
		P + "vSetenvProc": func(it *Interp, a []Value) Value {
			k, ok := a[1].(*StrV).isConc()
			if !ok {
				it.unsup("vSetenvProc: symbolic variable name")
			}
			it.penv[envKey(int(a[0].(int64)), k)] = a[2].(*StrV)
			return nil
		},
	}
	// sync/atomic on integers of every width, and on pointers
	type ak struct {
		name   string
		t      types.Type
	}
	for _, k := range []ak{{"Int32", types.Typ[types.Int32]}, {"Int64", types.Typ[types.Int64]}, {"Uint32", types.Typ[types.Uint32]}, {"Uint64", types.Typ[types.Uint64]}, {"Uintptr", types.Typ[types.Uintptr]}} {
		k := k
		more["sync/atomic.Add"+k.name] = func(it *Interp, a []Value) Value {
			p := a[0].(Ptr)
			it.visible("atomic", "at"+ptrKey(p))
			nv := it.binop(token.ADD, it.load(p), a[1], k.t)
			it.store(p, nv)
			return nv
		}
		more["sync/atomic.Load"+k.name] = func(it *Interp, a []Value) Value {
			p := a[0].(Ptr)
			it.visible("atomic", "at"+ptrKey(p))
			return it.load(p)
		}
		more["sync/atomic.Store"+k.name] = func(it *Interp, a []Value) Value {
			p := a[0].(Ptr)
			it.visible("atomic", "at"+ptrKey(p))
			it.store(p, a[1])
			return nil
		}
		more["sync/atomic.Swap"+k.name] = func(it *Interp, a []Value) Value {
			p := a[0].(Ptr)
			it.visible("atomic", "at"+ptrKey(p))
			old := it.load(p)
			it.store(p, a[1])
			return old
		}
		more["sync/atomic.CompareAndSwap"+k.name] = func(it *Interp, a []Value) Value {
			p := a[0].(Ptr)
			it.visible("atomic", "at"+ptrKey(p))
			eq := it.binop(token.EQL, it.load(p), a[1], k.t)
			if it.branch(eq, "cas") {
				it.store(p, a[2])
				return true
			}
			return false
		}
	}
	more["sync/atomic.LoadPointer"] = func(it *Interp, a []Value) Value {
		p := a[0].(Ptr)
		it.visible("atomic", "at"+ptrKey(p))
		return it.load(p)
	}
	more["sync/atomic.StorePointer"] = func(it *Interp, a []Value) Value {
		p := a[0].(Ptr)
		it.visible("atomic", "at"+ptrKey(p))
		it.store(p, a[1])
		return nil
	}
	more["sync/atomic.SwapPointer"] = func(it *Interp, a []Value) Value {
		p := a[0].(Ptr)
		it.visible("atomic", "at"+ptrKey(p))
		old := it.load(p)
		it.store(p, a[1])
		return old
	}
	more["sync/atomic.CompareAndSwapPointer"] = func(it *Interp, a []Value) Value {
		p := a[0].(Ptr)
		it.visible("atomic", "at"+ptrKey(p))
		if it.refEq(it.load(p), a[1]) {
			it.store(p, a[2])
			return true
		}
		return false
	}
	for k, v := range more {
		intrinsics[k] = v
	}
}
