package main

import (
	"go/token"
	"go/types"
)

// time.Time on the symbolic clock. A Time is the real struct {wall, ext, loc} with wall = 0, loc = nil and
// ext = (clock instant in ns) + timeEpoch; the zero Time (ext = 0) is therefore distinct from every instant the clock
// can show. Only the operations below are given this meaning; anything else of package time that looks inside a Time
// (formatting, calendar arithmetic) is outside the model.
const timeEpoch = int64(1) << 50

var tInt64 = types.Typ[types.Int64]

func (it *Interp) timeStruct(ext Value) Value {
	t := it.prog.ImportedPackage("time").Type("Time").Type()
	tv := it.zero(t).(*StructV)
	tv.F[1] = ext
	return tv
}

func timeExt(v Value) Value { return v.(*StructV).F[1] }

func init() {
	more := map[string]func(it *Interp, args []Value) Value{
		"time.Now": func(it *Interp, a []Value) Value {
			return it.timeStruct(it.timeAdd(it.sch.now, timeEpoch))
		},
		"(time.Time).Add": func(it *Interp, a []Value) Value {
			return it.timeStruct(it.binop(token.ADD, timeExt(a[0]), a[1], tInt64))
		},
		"(time.Time).Sub": func(it *Interp, a []Value) Value {
			return it.binop(token.SUB, timeExt(a[0]), timeExt(a[1]), tInt64)
		},
		"(time.Time).IsZero": func(it *Interp, a []Value) Value {
			return it.binop(token.EQL, timeExt(a[0]), int64(0), tInt64)
		},
		"(time.Time).After": func(it *Interp, a []Value) Value {
			return it.binop(token.GTR, timeExt(a[0]), timeExt(a[1]), tInt64)
		},
		"(time.Time).Before": func(it *Interp, a []Value) Value {
			return it.binop(token.LSS, timeExt(a[0]), timeExt(a[1]), tInt64)
		},
		"(time.Time).Equal": func(it *Interp, a []Value) Value {
			return it.binop(token.EQL, timeExt(a[0]), timeExt(a[1]), tInt64)
		},
		"time.Since": func(it *Interp, a []Value) Value {
			return it.binop(token.SUB, it.timeAdd(it.sch.now, timeEpoch), timeExt(a[0]), tInt64)
		},
		"time.Until": func(it *Interp, a []Value) Value {
			return it.binop(token.SUB, timeExt(a[0]), it.timeAdd(it.sch.now, timeEpoch), tInt64)
		},
		// vTimeNs(t): the clock instant a Time denotes, or -1 for the zero Time
		P + "vTimeNs": func(it *Interp, a []Value) Value {
			ext := timeExt(a[0])
			if c, ok := ext.(int64); ok {
				if c == 0 {
					return int64(-1)
				}
				return c - timeEpoch
			}
			if it.branch(it.binop(token.EQL, ext, int64(0), tInt64), "zerotime") {
				return int64(-1)
			}
			return it.binop(token.SUB, ext, timeEpoch, tInt64)
		},
	}
	for k, v := range more {
		intrinsics[k] = v
	}
}
