package main

import (
	"fmt"
	"os"
	"runtime/debug"
	"sort"
	"strings"
	"sync"
	"sync/atomic"
	"time"

	"golang.org/x/tools/go/ssa"
)

// RunCfg is one exploration: a harness entry point, a scheduler mode and the bound parameters.
type RunCfg struct {
	Name         string           `json:"name"`
	Entry        string           `json:"entry"`
	DPOR         bool             `json:"dpor"`
	MaxRev       int              `json:"max_reversals"`
	Race         bool             `json:"race_detection"`
	NoMapPerm    bool             `json:"no_map_order_permutation,omitempty"`
	NoSelectFork bool             `json:"first_ready_select_case,omitempty"`
	Params       map[string]int64 `json:"params,omitempty"`
	Workers      int              `json:"workers"`
	StepLimit    int              `json:"step_limit"`
	Unwind       int              `json:"unwind_limit"`
	Covers       []string         `json:"required_covers,omitempty"`
	Witness      int              `json:"witness_samples,omitempty"`
	MaxWallS     int              `json:"max_wall_s,omitempty"`
	CrossCheck   int              `json:"cross_solver_sample,omitempty"`
	FixedPath    []int            `json:"-"`
	FixedLabels  []string         `json:"-"`
}

type Violation struct {
	Kind      string                 `json:"kind"` // assert | hang | panic | race
	Label     string                 `json:"label"`
	Tags      []string               `json:"tags,omitempty"`
	Run       string                 `json:"run"`
	Entry     string                 `json:"entry"`
	Model     map[string]string      `json:"model,omitempty"`
	Witness   map[string]interface{} `json:"witness,omitempty"`
	Decisions []int                  `json:"decisions"`
	DecLabels []string               `json:"decision_labels,omitempty"` // the decision point each entry of Decisions was taken at
	Trace     []string               `json:"schedule_trace,omitempty"`
	Where     string                 `json:"where,omitempty"`
}

func (v *Violation) Signature() string {
	s := v.Kind + ":" + v.Label
	if len(v.Tags) > 0 {
		t := append([]string{}, v.Tags...)
		sort.Strings(t)
		s += "|" + strings.Join(t, ",")
	}
	return s
}

type violGroup struct {
	First *Violation
	Count int
}

type RunResult struct {
	Cfg       RunCfg
	Paths     int64
	Nodes     int64
	Edges     int64
	Queries   int64
	AssertQ   int64
	SolverDur time.Duration
	Steps     int64
	Ends      map[string]int
	Covers    map[string]int
	Viols     map[string]*violGroup
	Inconc    map[string]int
	Diverged  string // replay only
	FnSteps   map[string]int
	Samples   []map[string]interface{}
	classN    map[string]int
	Cross     []crossQ
	Wall      time.Duration
	mu        sync.Mutex
}

func (r *RunResult) addViol(v *Violation) {
	r.mu.Lock()
	defer r.mu.Unlock()
	sig := v.Signature()
	if g, ok := r.Viols[sig]; ok {
		g.Count++
		// keep the example with the fewest decisions: the shortest history that fails
		if len(v.Decisions) < len(g.First.Decisions) {
			g.First = v
		}
		return
	}
	r.Viols[sig] = &violGroup{First: v, Count: 1}
}

func explore(p *Program, cfg RunCfg) (*RunResult, error) {
	fn := p.pkg.Func(cfg.Entry)
	if fn == nil {
		return nil, fmt.Errorf("no harness function %s", cfg.Entry)
	}
	if cfg.Workers <= 0 {
		cfg.Workers = 16
	}
	if cfg.StepLimit <= 0 {
		cfg.StepLimit = 3000000
	}
	if cfg.Unwind <= 0 {
		cfg.Unwind = 256
	}
	res := &RunResult{Cfg: cfg, Ends: map[string]int{}, Covers: map[string]int{}, Viols: map[string]*violGroup{}, Inconc: map[string]int{}, FnSteps: map[string]int{}}
	t0 := time.Now()
	pool := newPool(cfg.Workers)
	if cfg.FixedPath != nil {
		var pre []choice
		for i, d := range cfg.FixedPath {
			l := ""
			if i < len(cfg.FixedLabels) {
				l = cfg.FixedLabels[i]
			}
			pre = append(pre, choice{l, d, d})
		}
		pool.put(task{prefix: pre})
	} else {
		pool.put(task{})
	}
	if cfg.MaxWallS <= 0 {
		cfg.MaxWallS = 900
	}
	var expired int32
	wd := time.AfterFunc(time.Duration(cfg.MaxWallS)*time.Second, func() {
		atomic.StoreInt32(&expired, 1)
		pool.mu.Lock()
		pool.closed = true
		pool.queue = nil
		pool.mu.Unlock()
		pool.cond.Broadcast()
	})
	defer wd.Stop()
	if os.Getenv("GPV_PROGRESS") != "" {
		tick := time.NewTicker(5 * time.Second)
		defer tick.Stop()
		go func() {
			for range tick.C {
				fmt.Fprintf(os.Stderr, "progress %s: %.0fs paths=%d nodes=%d queue=%d\n", cfg.Name, time.Since(t0).Seconds(), atomic.LoadInt64(&pool.paths), atomic.LoadInt64(&pool.nodes), len(pool.queue))
			}
		}()
	}
	var wg sync.WaitGroup
	fatal := make(chan string, cfg.Workers)
	for w := 0; w < cfg.Workers; w++ {
		wg.Add(1)
		go func() {
			defer wg.Done()
			defer func() {
				if r := recover(); r != nil {
					fatal <- fmt.Sprintf("engine panic: %v\n%s", r, debug.Stack())
					// let the other workers finish: mark ourselves idle for ever
					pool.mu.Lock()
					pool.closed = true
					pool.mu.Unlock()
					pool.cond.Broadcast()
				}
			}()
			sol := newSolver()
			sol.keep = cfg.CrossCheck > 0
			defer sol.close()
			ex := &Explorer{pool: pool, verify: cfg.FixedPath != nil}
			fnSteps := map[*ssa.Function]int{}
			for {
				t, ok := pool.get()
				if !ok {
					break
				}
				ex.load(t)
				for {
					sol.reset()
					it := newInterp(p, sol, ex, &cfg, fnSteps)
					it.expired = &expired
					it.res = res
					why := runPath(it, fn)
					if atomic.LoadInt32(&expired) == 1 {
						res.mu.Lock()
						res.Inconc[fmt.Sprintf("wall-clock limit of %d s reached before the bound was explored", cfg.MaxWallS)]++
						res.mu.Unlock()
						break
					}
					res.finishPath(it, why, ex)
					if cfg.FixedPath != nil {
						res.mu.Lock()
						res.Diverged = ex.diverged
						if ex.diverged == "" && ex.pos < len(ex.stack) {
							res.Diverged = fmt.Sprintf("the path ended after %d of the %d recorded decisions", ex.pos, len(ex.stack))
						}
						res.mu.Unlock()
						break
					}
					if !ex.advance() {
						break
					}
				}
				if cfg.FixedPath != nil {
					pool.mu.Lock()
					pool.closed = true
					pool.mu.Unlock()
					pool.cond.Broadcast()
					break
				}
			}
			res.mu.Lock()
			res.Queries += int64(sol.nq)
			res.SolverDur += sol.dur
			for f, n := range fnSteps {
				res.FnSteps[f.String()] += n
			}
			res.mu.Unlock()
		}()
	}
	wg.Wait()
	select {
	case f := <-fatal:
		res.Inconc["INTERNAL: "+strings.SplitN(f, "\n", 2)[0]]++
		fmt.Fprintln(os.Stderr, f)
	default:
	}
	res.Paths, res.Nodes, res.Edges = pool.paths, pool.nodes, pool.edges
	if cfg.FixedPath != nil {
		res.Paths = 1
	}
	res.Wall = time.Since(t0)
	return res, nil
}

// finishPath classifies how a path ended and merges what it observed.
func (r *RunResult) finishPath(it *Interp, why string, ex *Explorer) {
	kind := ""
	switch {
	case strings.HasPrefix(why, "HANG"):
		kind = "hang"
	case strings.HasPrefix(why, "PANIC"):
		kind = "panic"
	}
	if kind != "" {
		v := &Violation{Kind: kind, Label: why, Tags: append([]string{}, it.tags...), Decisions: ex.decisions(), Where: it.curPos}
		if kind == "hang" {
			v.Where = strings.TrimSpace(it.sch.hangWhere)
		}
		v.Model = it.sol.model("", it.syms)
		v.Witness = it.witness()
		it.viols = append(it.viols, v)
	}
	for _, v := range it.viols {
		v.Run, v.Entry = r.Cfg.Name, r.Cfg.Entry
		if lb := ex.labels(); len(lb) >= len(v.Decisions) {
			v.DecLabels = lb[:len(v.Decisions)]
		}
		if it.sch.dpor {
			for _, tr := range it.sch.trace {
				v.Trace = append(v.Trace, fmt.Sprintf("g%d %s %s %s %s", tr.tid, tr.tname, tr.op.kind, tr.op.obj, tr.op.pos))
			}
		}
		r.addViol(v)
	}
	for race := range it.sch.races {
		v := &Violation{Kind: "race", Label: race, Decisions: ex.decisions(), Run: r.Cfg.Name, Entry: r.Cfg.Entry}
		if lb := ex.labels(); len(lb) >= len(v.Decisions) {
			v.DecLabels = lb[:len(v.Decisions)]
		}
		for _, tr := range it.sch.trace {
			v.Trace = append(v.Trace, fmt.Sprintf("g%d %s %s %s %s", tr.tid, tr.tname, tr.op.kind, tr.op.obj, tr.op.pos))
		}
		r.addViol(v)
	}
	end := why
	switch {
	case strings.HasPrefix(why, "UNSUPPORTED"), strings.HasPrefix(why, "INTERNAL"), why == "step limit", strings.HasPrefix(why, "unwind"):
		r.mu.Lock()
		r.Inconc[why]++
		r.mu.Unlock()
	}
	r.mu.Lock()
	defer r.mu.Unlock()
	for _, s := range it.inconc {
		r.Inconc[s]++
	}
	if len(it.viols) > 0 && kind == "" && (why == "ok" || why == "done") {
		end = "ok (after a failed assertion)"
	}
	r.Ends[end]++
	if why == "ok" || why == "done" || kind != "" || strings.HasPrefix(why, "assert failed") {
		for c, n := range it.covers {
			r.Covers[c] += n
		}
	}
	r.Steps += int64(it.steps)
	r.AssertQ += int64(it.assertQ)
	if (why == "ok" || why == "done") && len(it.viols) == 0 {
		// sample passing paths spread over outcome classes (the set of cover labels reached)
		var cv []string
		for c := range it.covers {
			cv = append(cv, c)
		}
		sort.Strings(cv)
		class := strings.Join(cv, ",")
		max := r.Cfg.Witness
		if max < 6 {
			max = 6
		}
		if r.classN == nil {
			r.classN = map[string]int{}
		}
		if len(r.Samples) < max && r.classN[class] < 2+r.Cfg.Witness/8 {
			r.classN[class]++
			s := map[string]interface{}{"run": r.Cfg.Name, "decisions": ex.decisions(), "end": why, "covers": cv}
			if m := it.sol.model("", it.syms); len(m) > 0 {
				s["inputs"] = m
			}
			if len(it.records) > 0 {
				s["witness"] = it.witness()
			}
			r.Samples = append(r.Samples, s)
		}
	}
}

func runPath(it *Interp, fn *ssa.Function) (why string) {
	defer func() {
		if r := recover(); r != nil {
			switch x := r.(type) {
			case pathEnd:
				why = x.why
			case infeasible:
				why = "infeasible"
			case *goPanic:
				why = "PANIC: " + x.msg
			case unsupported:
				why = "UNSUPPORTED: " + x.what
			default:
				panic(r)
			}
		}
	}()
	it.spawn("main", func() {
		it.initPkgs()
		it.call(fn, nil, nil, nil)
	})
	return it.schedule()
}

// initPkgs runs the package initialisers of the go-plugin packages (call() skips everything else).
func (it *Interp) initPkgs() {
	it.call(it.pkg.Func("init"), nil, nil, nil)
}

func newInterp(p *Program, sol *Solver, ex *Explorer, cfg *RunCfg, fnSteps map[*ssa.Function]int) *Interp {
	return &Interp{prog: p.prog, pkg: p.pkg, sol: sol, ex: ex, cfg: cfg, globals: map[*ssa.Global]*Obj{}, penv: map[string]*StrV{},
		covers: map[string]int{}, symSort: map[string]string{}, lines: map[string]*LineV{}, ufIsStr: map[string]bool{}, fnSteps: fnSteps, lits: map[string]string{}, catSeen: map[string]bool{}, models: p.models,
		wraps: map[int][]Value{}, subs: map[string]subInfo{}, prefixes: map[string][]string{}, ufStrUsed: map[string]func(string) string{},
		sch: &Sched{yield: make(chan struct{}), now: int64(0), locks: map[string]bool{}, wg: map[string]int{}, once: map[string]bool{}, onceSt: map[string]int{},
			dpor: cfg.DPOR, maxRev: cfg.MaxRev, race: cfg.Race, objVC: map[string]map[int]int{}, lastW: map[string]access{}, reads: map[string]map[int]access{}, races: map[string]bool{}}}
}
