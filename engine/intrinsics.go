package main

import (
	"go/types"
	"strconv"
)

var intrinsics map[string]func(it *Interp, args []Value) Value

const P = "github.com/hashicorp/go-plugin."

func (it *Interp) strSlice(parts []*StrV) Value {
	arr := &ArrayV{}
	for _, p := range parts {
		arr.E = append(arr.E, p)
	}
	return SliceV{arr: it.newObj(nil, arr), ln: int64(len(parts)), cp: len(parts)}
}

func (it *Interp) mkError(msg *StrV) Value {
	ep := it.prog.ImportedPackage("errors")
	t := ep.Type("errorString").Type()
	o := it.newObj(t, &StructV{F: []Value{msg}})
	return IfaceV{t: types.NewPointer(t), v: Ptr{o: o}}
}

func init() {
	intrinsics = map[string]func(it *Interp, args []Value) Value{
		P + "vNondetInt": func(it *Interp, a []Value) Value {
			tag, _ := a[0].(*StrV).isConc()
			return it.fresh(tag, "BV64")
		},
		P + "vNondetBool": func(it *Interp, a []Value) Value {
			tag, _ := a[0].(*StrV).isConc()
			return it.fresh(tag, "Bool")
		},
		P + "vNondetStr": func(it *Interp, a []Value) Value {
			tag, _ := a[0].(*StrV).isConc()
			nosep, _ := a[1].(*StrV).isConc()
			s := it.fresh(tag, "Str")
			it.sol.assert("(bvult (len " + s.T + ") (_ bv2147483648 64))")
			return &StrV{A: []Atom{{Sym: s.T, NoSep: nosep}}}
		},
		P + "vChoice": func(it *Interp, a []Value) Value {
			return int64(it.choose(int(a[0].(int64)), "vChoice"))
		},
		P + "vAssume": func(it *Interp, a []Value) Value {
			switch c := a[0].(type) {
			case bool:
				if !c {
					panic(pathEnd{"assume false"})
				}
			case *Sym:
				if it.sol.check(c.T) != "sat" {
					panic(pathEnd{"assume infeasible"})
				}
				it.assume(c.T)
			}
			return nil
		},
		P + "vAssert": func(it *Interp, a []Value) Value {
			msg, _ := a[1].(*StrV).isConc()
			switch c := a[0].(type) {
			case bool:
				if !c {
					it.viols = append(it.viols, &Violation{Kind: "assert", Label: msg, Tags: append([]string{}, it.tags...), Model: it.sol.model("", it.syms), Witness: it.witness(), Decisions: it.ex.decisions()})
					panic(pathEnd{"assert failed"})
				}
			case *Sym:
				neg := "(not " + c.T + ")"
				it.assertQ++
				ans := it.sol.check(neg)
				if it.cfg.CrossCheck > 0 {
					it.crossSample(neg, ans, msg)
				}
				switch ans {
				case "unsat":
				case "sat":
					it.viols = append(it.viols, &Violation{Kind: "assert", Label: msg, Tags: append([]string{}, it.tags...), Model: it.sol.model(neg, it.syms), Witness: it.witnessUnder(neg), Decisions: it.ex.decisions()})
					// the assertion fails for some values on this path; carry on with the values for which it holds
					if it.sol.check(c.T) != "sat" {
						panic(pathEnd{"assert failed"})
					}
				default:
					it.inconc = append(it.inconc, "solver unknown on assertion "+msg)
				}
				it.assume(c.T)
			}
			return nil
		},
		P + "vTag": func(it *Interp, a []Value) Value {
			l, _ := a[0].(*StrV).isConc()
			it.tags = append(it.tags, l)
			return nil
		},
		P + "vParam": func(it *Interp, a []Value) Value {
			l, _ := a[0].(*StrV).isConc()
			v, ok := it.cfg.Params[l]
			if !ok {
				it.unsup("harness parameter %q not set for this run", l)
			}
			return v
		},
		P + "vCover": func(it *Interp, a []Value) Value {
			l, _ := a[0].(*StrV).isConc()
			it.covers[l]++
			return nil
		},
		"strings.Split": func(it *Interp, a []Value) Value {
			sep, ok := a[1].(*StrV).isConc()
			if !ok {
				it.unsup("Split symbolic sep")
			}
			if s := a[0].(*StrV).norm(); len(s.A) == 1 && s.A[0].Line != nil {
				l := s.A[0].Line
				if !l.Trimmed || l.Sep != sep {
					it.unsup("Split of untrimmed line / other separator")
				}
				arr := &ArrayV{}
				for _, f := range l.Fields {
					arr.E = append(arr.E, &StrV{A: []Atom{{Sym: f, NoSep: sep}}})
				}
				return SliceV{arr: it.newObj(nil, arr), ln: l.N, cp: len(l.Fields)}
			}
			return it.strSlice(it.strSplit(a[0].(*StrV), sep))
		},
		"strings.Join": func(it *Interp, a []Value) Value {
			s := a[0].(SliceV)
			n, ok := s.ln.(int64)
			if !ok {
				it.unsup("Join symbolic len")
			}
			out := &StrV{}
			for i := 0; i < int(n); i++ {
				if i > 0 {
					out.A = append(out.A, a[1].(*StrV).A...)
				}
				out.A = append(out.A, s.arr.v.(*ArrayV).E[s.off+i].(*StrV).A...)
			}
			return out.norm()
		},
		"strconv.Itoa": func(it *Interp, a []Value) Value {
			switch x := a[0].(type) {
			case int64:
				return conc(strconv.Itoa(int(x)))
			case *Sym:
				t := "(itoa " + x.T + ")"
				it.sol.assert("(atoi_ok " + t + ")")
				it.sol.assert("(bvuge (len " + t + ") (_ bv1 64))")
				it.sol.assert("(bvule (len " + t + ") (_ bv20 64))")
				it.sol.assert("(= (atoi_val " + t + ") " + x.T + ")")
				return &StrV{A: []Atom{{Sym: t, NoSep: "*digits"}}}
			}
			return nil
		},
		"strconv.Atoi": func(it *Interp, a []Value) Value {
			s := a[0].(*StrV)
			if c, ok := s.isConc(); ok {
				v, err := strconv.Atoi(c)
				if err != nil {
					return TupleV{int64(0), it.mkError(conc(err.Error()))}
				}
				return TupleV{int64(v), IfaceV{}}
			}
			t := it.strTerm(s)
			if it.branch(&Sym{T: "(atoi_ok " + t + ")", S: "Bool"}, "atoi") {
				return TupleV{&Sym{T: "(atoi_val " + t + ")", S: "BV64"}, IfaceV{}}
			}
			return TupleV{int64(0), it.mkError(conc("strconv.Atoi: parsing: invalid syntax"))}
		},
		P + "vNondetU32": func(it *Interp, a []Value) Value {
			tag, _ := a[0].(*StrV).isConc()
			return it.fresh(tag, "BV32")
		},
		P + "vNondetTime": func(it *Interp, a []Value) Value {
			tag, _ := a[0].(*StrV).isConc()
			t := it.fresh(tag, "BV64")
			it.sol.assert("(bvult " + t.T + " (_ bv1099511627776 64))")
			return t
		},
		P + "vNow": func(it *Interp, a []Value) Value { return it.sch.now },
		P + "vDaemon": func(it *Interp, a []Value) Value { it.sch.cur.daemon = true; return nil },
		P + "vSleepUntil": func(it *Interp, a []Value) Value {
			d := a[0]
			it.block("sleep", func() bool { return it.branch(it.timeLE(d, it.sch.now), "sleepdue") }, func() []Value { return []Value{d} })
			return nil
		},
		"time.After": func(it *Interp, a []Value) Value {
			it.nchan++
			var dl Value
			switch d := a[0].(type) {
			case int64:
				dl = it.timeAdd(it.sch.now, d)
			default:
				it.unsup("time.After symbolic duration")
			}
			return &ChanV{id: it.nchan, timer: true, deadline: dl}
		},
		"(*sync.Mutex).Lock":   func(it *Interp, a []Value) Value { it.lock(a[0].(Ptr)); return nil },
		"(*sync.Mutex).Unlock": func(it *Interp, a []Value) Value { it.unlock(a[0].(Ptr)); return nil },
		"log.Printf":           func(it *Interp, a []Value) Value { return nil },
		"encoding/binary.Read": func(it *Interp, a []Value) Value {
			dst := a[2].(IfaceV).v.(Ptr)
			r := it.call(it.pkg.Func("vStreamReadU32"), []Value{a[0]}, nil, nil).(TupleV)
			if isNil, _ := isNilVal(r[1]); isNil {
				it.store(dst, r[0])
			}
			return r[1]
		},
		"encoding/binary.Write": func(it *Interp, a []Value) Value {
			return it.call(it.pkg.Func("vStreamWriteU32"), []Value{a[0], a[2].(IfaceV).v}, nil, nil)
		},
		"fmt.Fprintf": func(it *Interp, a []Value) Value { return TupleV{int64(0), IfaceV{}} },
		"os/exec.Command": func(it *Interp, a []Value) Value {
			t := it.prog.ImportedPackage("os/exec").Type("Cmd").Type()
			return Ptr{o: it.newObj(t, it.zero(t))}
		},
	}
}
