package main

// validateNatively concretises sampled symbolic paths and runs them through the real build (go test -overlay),
// comparing the engine's predicted observable outcome with the real one. Returns the number of paths that agreed.
func validateNatively(spec *PropSpec, results []*RunResult, tier, id string) (int, string) {
	return 0, ""
}
