package main

import (
	"encoding/json"
	"fmt"
	"os"
	"os/exec"
	"path/filepath"
	"regexp"
	"strconv"
	"strings"
)

// validateNatively concretises sampled passing symbolic paths and runs them through the real build (go test -overlay
// with a native template from /verif/replay/native), comparing the engine's predicted observable outcome with the real
// one. Returns the number of paths that agreed and a note; a note starting with MISMATCH makes the check inconclusive
// (the interpreter, a model or an axiom is wrong - never reported as a violation of go-plugin).
func validateNatively(spec *PropSpec, results []*RunResult, tier, id string) (int, string) {
	total, notes := 0, []string{}
	for _, rs := range spec.Runs {
		if rs.Native == "" {
			continue
		}
		for _, res := range results {
			if res.Cfg.Name != rs.Name {
				continue
			}
			n, note := validateRun(rs.Native, res, id)
			total += n
			if note != "" {
				notes = append(notes, rs.Name+": "+note)
			}
		}
	}
	return total, strings.Join(notes, "; ")
}

func bvInt(s string) int64 {
	s = strings.TrimSpace(s)
	if strings.HasPrefix(s, "#x") {
		u, _ := strconv.ParseUint(s[2:], 16, 64)
		return int64(u)
	}
	if s == "true" {
		return 1
	}
	n, _ := strconv.ParseInt(s, 10, 64)
	return n
}

func validateRun(template string, res *RunResult, id string) (int, string) {
	var cases []map[string]interface{}
	for i, s := range res.Samples {
		w, _ := s["witness"].(map[string]interface{})
		if w == nil {
			continue
		}
		rec, _ := w["rec"].(map[string]interface{})
		conc, _ := w["concrete"].(map[string]string)
		if rec == nil {
			continue
		}
		str := func(k string) string { // a recorded string: literal parts and symbolic parts resolved through the concretisation
			parts, ok := rec[k].([]interface{})
			if !ok {
				return fmt.Sprint(rec[k])
			}
			out := ""
			for _, p := range parts {
				m := p.(map[string]string)
				switch {
				case m["lit"] != "":
					out += m["lit"]
				case m["sym"] != "":
					out += conc[m["sym"]]
				case m["line"] != "":
					out += conc["line:"+m["line"]]
				}
			}
			return out
		}
		c := map[string]interface{}{"id": fmt.Sprintf("%s-%d", res.Cfg.Name, i), "inputs": s["inputs"]}
		for k, v := range rec {
			switch v.(type) {
			case string:
				c[k] = bvInt(v.(string))
			default:
				c[k] = str(k)
			}
		}
		for k, v := range conc {
			if strings.HasPrefix(k, "line:") {
				c["line"] = v
			}
		}
		cases = append(cases, c)
	}
	if len(cases) == 0 {
		return 0, "no sampled path carried a witness"
	}
	dir := filepath.Join(outDir, "replays", "last", id)
	os.MkdirAll(dir, 0755)
	cf := filepath.Join(dir, "native-cases-"+res.Cfg.Name+".json")
	b, _ := json.MarshalIndent(cases, "", " ")
	os.WriteFile(cf, b, 0644)
	tmpl := filepath.Join(verifDir, "replay", "native", template+"_validate_test.go")
	ov := filepath.Join(dir, "overlay-"+res.Cfg.Name+".json")
	ovb, _ := json.Marshal(map[string]map[string]string{"Replace": {filepath.Join(repoDir, "zz_verif_validate_test.go"): tmpl}})
	os.WriteFile(ov, ovb, 0644)
	cmd := goCmd(repoDir, "test", "-v", "-vet=off", "-count=1", "-overlay", ov, "-run", "TestVerifValidate", ".")
	cmd.Env = append(cmd.Env, "VERIF_CASES="+cf)
	out, _ := cmd.CombinedOutput()
	agree := len(regexp.MustCompile(`(?m)^VALIDATED `).FindAll(out, -1))
	var mism []string
	for _, l := range strings.Split(string(out), "\n") {
		if strings.HasPrefix(strings.TrimSpace(l), "MISMATCH ") {
			mism = append(mism, strings.TrimSpace(l))
		}
	}
	if len(mism) > 0 {
		return agree, "MISMATCH between the engine's prediction and the real build on " + fmt.Sprint(len(mism)) + " sampled path(s): " + strings.Join(mism, " | ")
	}
	if agree == 0 {
		tail := string(out)
		if len(tail) > 600 {
			tail = tail[len(tail)-600:]
		}
		return 0, "native validation did not run: " + strings.ReplaceAll(tail, "\n", " ")
	}
	return agree, fmt.Sprintf("%d sampled passing paths concretised and run through the real code natively (go test -overlay, template %s): the engine's predicted outcome agrees on all of them", agree, template)
}

var _ = exec.Command
