package main

import (
	"encoding/json"
	"flag"
	"fmt"
	"os"
	"os/exec"
	"path/filepath"
	"regexp"
	"sort"
	"strconv"
	"strings"
	"time"
)

func cmdCheck(args []string) int {
	fs := flag.NewFlagSet("check", flag.ExitOnError)
	tier := fs.String("tier", "", "quick|thorough")
	workers := fs.Int("j", 16, "workers")
	verbose := fs.Bool("v", false, "verbose")
	only := fs.String("only", "", "run only this run of the property")
	if len(args) < 1 {
		fmt.Fprintln(os.Stderr, "check: need a property id")
		return 2
	}
	id := args[0]
	fs.Parse(args[1:])
	if *tier == "" {
		*tier = os.Getenv("VERIF_TIER")
	}
	if *tier == "" {
		*tier = "quick"
	}
	seed, _ := strconv.Atoi(os.Getenv("VERIF_SEED"))
	t0 := time.Now()
	spec, err := loadSpec(id)
	if err != nil {
		fmt.Fprintln(os.Stderr, err)
		return 2
	}
	ev := &Evidence{PropertyID: id, Tier: *tier, Seed: seed, Level: "model_checking"}
	ev.Assumptions = append(ev.Assumptions, spec.Assumptions...)
	cov := map[string]interface{}{}
	ev.Coverage = cov
	evPath := filepath.Join(outDir, "evidence", id+".json")
	inconclusive := []string{}

	progs := map[string]*Program{}
	getProg := func(files []string) (*Program, error) {
		if len(files) == 0 {
			files = spec.Files
		}
		k := strings.Join(files, ",")
		if p, ok := progs[k]; ok {
			return p, nil
		}
		p, err := loadProgram(harnessPaths(files), nil)
		if err == nil {
			progs[k] = p
		}
		return p, err
	}
	p, err := getProg(spec.Files)
	if err != nil {
		inconclusive = append(inconclusive, "cannot load /repo with the harness overlay: "+err.Error())
		fmt.Printf("INCONCLUSIVE property=%s reason=%s\n", id, strings.ReplaceAll(inconclusive[0], "\n", " "))
		cov["explanation"] = inconclusive[0]
		cov["evaluations"], cov["distinct_nontrivial"] = 0, 0
		ev.Level = "other"
		ev.WallS = time.Since(t0).Seconds()
		writeEvidence(evPath, ev)
		return 2
	}
	loadS := time.Since(t0).Seconds()

	known := loadKnown()
	var results []*RunResult
	var bounds []string
	for _, rs := range spec.Runs {
		if *only != "" && rs.Name != *only {
			continue
		}
		ts, ok := rs.Tiers[*tier]
		if !ok {
			if *tier == "thorough" {
				ts, ok = rs.Tiers["quick"]
			}
			if !ok {
				continue
			}
		}
		if ts.Skip {
			continue
		}
		cfg := RunCfg{Name: rs.Name, Entry: rs.Entry, DPOR: rs.DPOR, MaxRev: ts.MaxRev, Race: ts.Race, Params: ts.Params, Workers: *workers,
			NoMapPerm: rs.NoMapPerm, NoSelectFork: rs.NoSelectFork, Covers: rs.Covers, StepLimit: ts.StepLimit, Unwind: ts.Unwind, Witness: ts.Witness, MaxWallS: ts.MaxWallS}
		if *tier == "thorough" {
			cfg.CrossCheck = 40
		}
		if ts.DPOR != nil {
			cfg.DPOR = *ts.DPOR
		}
		rp, err := getProg(rs.Files)
		if err != nil {
			inconclusive = append(inconclusive, rs.Name+": cannot load /repo with the harness overlay: "+err.Error())
			continue
		}
		res, err := explore(rp, cfg)
		if err != nil {
			inconclusive = append(inconclusive, rs.Name+": "+err.Error())
			continue
		}
		results = append(results, res)
		printResult(res, *verbose)
		sched := "canonical schedule"
		if cfg.DPOR {
			sched = fmt.Sprintf("DPOR, <= %d reversals", cfg.MaxRev)
			if cfg.Race {
				sched += ", happens-before race detection"
			}
		}
		bounds = append(bounds, fmt.Sprintf("%s[%s; %s]", rs.Name, sched, ts.Bound))
		for r, n := range res.Inconc {
			inconclusive = append(inconclusive, fmt.Sprintf("%s: %s (x%d)", rs.Name, r, n))
		}
		for _, c := range rs.Covers {
			if res.Covers[c] == 0 {
				inconclusive = append(inconclusive, fmt.Sprintf("%s: cover label %q was never reached (vacuity guard)", rs.Name, c))
			}
		}
	}
	if len(results) == 0 && len(inconclusive) == 0 {
		inconclusive = append(inconclusive, "no run defined for tier "+*tier)
	}

	// verdict
	nViol, nKnown := 0, 0
	var violRecs []map[string]interface{}
	replayDir := filepath.Join(outDir, "replays", "last", id)
	os.RemoveAll(replayDir)
	printedKnown := map[string]bool{}
	for _, res := range results {
		var sigs []string
		for s := range res.Viols {
			sigs = append(sigs, s)
		}
		sort.Strings(sigs)
		for _, sig := range sigs {
			g := res.Viols[sig]
			// a harness shared by several properties prefixes its assertion labels with the property they belong to
			if m := labelProp.FindString(g.First.Label); m != "" && m != id {
				continue
			}
			kf := matchKnown(known, id, sig)
			rec := map[string]interface{}{"signature": sig, "run": res.Cfg.Name, "paths": g.Count}
			if kf != nil {
				nKnown++
				rec["known_finding"] = kf.What
				if !printedKnown[kf.What] {
					printedKnown[kf.What] = true
					fmt.Printf("KNOWN-FINDING: property=%s %s\n", id, kf.What)
				}
			} else {
				nViol++
				os.MkdirAll(replayDir, 0755)
				rp := filepath.Join(replayDir, fmt.Sprintf("%s-%d.json", res.Cfg.Name, nViol))
				writeReplay(rp, id, *tier, spec, res, g.First)
				rec["replay"] = rp
				fmt.Printf("VIOLATION property=%s replay=%s\n", id, rp)
				fmt.Printf("  what: [%s] %s (on %d path(s) of run %s)\n", g.First.Kind, g.First.Label, g.Count, res.Cfg.Name)
				if g.First.Witness != nil {
					w := map[string]interface{}{}
					for k, v := range g.First.Witness {
						if k != "strings" {
							w[k] = v
						}
					}
					b, _ := json.Marshal(w)
					fmt.Printf("  solver model (concretised): %s\n", b)
				} else if len(g.First.Model) > 0 {
					b, _ := json.Marshal(g.First.Model)
					fmt.Printf("  solver model: %s\n", b)
				}
			}
			violRecs = append(violRecs, rec)
		}
	}

	// evidence
	var states, transitions, paths, queries, assertQ, steps int64
	var solverS float64
	fnTotal := map[string]int{}
	covers := map[string]int{}
	ends := map[string]int{}
	var samples []interface{}
	var runs []map[string]interface{}
	for _, res := range results {
		states += res.Nodes + res.Paths
		transitions += res.Edges
		paths += res.Paths
		queries += res.Queries
		assertQ += res.AssertQ
		steps += res.Steps
		solverS += res.SolverDur.Seconds()
		for f, n := range res.FnSteps {
			if strings.Contains(f, "go-plugin") && !isHarnessFn(f) {
				fnTotal[f] += n
			}
		}
		for c, n := range res.Covers {
			covers[res.Cfg.Name+"/"+c] += n
		}
		for c, n := range res.Ends {
			ends[c] += n
		}
		for _, s := range res.Samples {
			if len(samples) < 12 {
				samples = append(samples, s)
			}
		}
		runs = append(runs, map[string]interface{}{"run": res.Cfg.Name, "entry": res.Cfg.Entry, "dpor": res.Cfg.DPOR, "max_reversals": res.Cfg.MaxRev,
			"race_detection": res.Cfg.Race, "params": res.Cfg.Params, "paths": res.Paths, "decision_nodes": res.Nodes, "decision_edges": res.Edges,
			"ssa_steps": res.Steps, "solver_queries": res.Queries, "assertion_queries": res.AssertQ, "solver_s": round2(res.SolverDur.Seconds()), "wall_s": round2(res.Wall.Seconds()),
			"path_ends": res.Ends, "covers": res.Covers})
	}
	for _, v := range violRecs {
		if len(samples) < 16 {
			samples = append(samples, v)
		}
	}
	if len(samples) == 0 {
		samples = append(samples, map[string]interface{}{"note": "no completed path to sample"})
	}
	var fns []string
	for f, n := range fnTotal {
		fns = append(fns, fmt.Sprintf("%s: %d SSA instructions executed", f, n))
	}
	sort.Strings(fns)
	cov["states"] = states
	cov["transitions"] = transitions
	cov["traces_validated_against_impl"] = 0
	cov["samples"] = samples
	cov["exhaustive"] = len(inconclusive) == 0
	cov["paths"] = paths
	cov["solver_queries"] = queries
	cov["assertion_queries"] = assertQ
	cov["solver_time_s"] = round2(solverS)
	cov["ssa_instructions_executed"] = steps
	cov["functions_encoded"] = fns
	cov["source_hashes"] = repoHashes(p)
	cov["bounds"] = bounds
	cov["outside_the_bound"] = spec.Outside
	cov["stubs"] = spec.Stubs
	cov["runs"] = runs
	cov["cover_labels"] = covers
	cov["path_ends"] = ends
	cov["violations_found"] = violRecs
	cov["inconclusive"] = inconclusive
	cov["solver"] = solverVersion()
	cov["load_s"] = round2(loadS)
	cov["rule"] = "states = decision nodes created + path ends of the re-execution DFS; transitions = decision alternatives entered; every feasible alternative within the bound is entered exactly once"
	ev.Violations = nViol

	// native validation of sampled paths, where a template exists
	validated, vnote := validateNatively(spec, results, *tier, id)
	cov["traces_validated_against_impl"] = validated
	if vnote != "" {
		cov["native_validation"] = vnote
		if strings.Contains(vnote, "MISMATCH") {
			inconclusive = append(inconclusive, vnote)
			cov["inconclusive"] = inconclusive
		}
	}

	if *tier == "thorough" {
		nq, bad := crossCheck(results, filepath.Join(outDir, "replays", "last", id))
		cov["cross_solver"] = map[string]interface{}{"assertion_queries_rechecked_on_z3_5.1_and_cvc5": nq, "disagreements": bad}
		for _, b := range bad {
			inconclusive = append(inconclusive, "cross-solver disagreement: "+b)
		}
		cov["inconclusive"] = inconclusive
	}
	ev.WallS = round2(time.Since(t0).Seconds())
	writeEvidence(evPath, ev)

	fmt.Printf("BOUND property=%s tier=%s %s\n", id, *tier, strings.Join(bounds, " "))
	if nViol > 0 {
		return 1
	}
	if len(inconclusive) > 0 {
		for _, r := range inconclusive {
			fmt.Printf("INCONCLUSIVE property=%s reason=%s\n", id, strings.ReplaceAll(r, "\n", " "))
		}
		return 2
	}
	fmt.Printf("OK property=%s tier=%s paths=%d queries=%d known_findings=%d wall=%.1fs\n", id, *tier, paths, queries, nKnown, time.Since(t0).Seconds())
	return 0
}

var labelProp = regexp.MustCompile(`^C[0-9]{2}`)

func round2(f float64) float64 { return float64(int64(f*100+0.5)) / 100 }

func matchKnown(known []KnownFinding, id, sig string) *KnownFinding {
	for i := range known {
		k := &known[i]
		if k.Property != id || k.Status != "known" {
			continue
		}
		if re, err := regexp.Compile(k.Signature); err == nil && re.MatchString(sig) {
			return k
		}
	}
	return nil
}

func repoHashes(p *Program) map[string]string {
	out := map[string]string{}
	for f, h := range p.srcHash {
		if strings.HasPrefix(f, repoDir+"/") && !strings.HasSuffix(f, "_test.go") {
			out[strings.TrimPrefix(f, repoDir+"/")] = h
		}
	}
	return out
}

var solverVer string

func solverVersion() string {
	if solverVer == "" {
		out, _ := exec.Command("z3", "--version").Output()
		solverVer = strings.TrimSpace(string(out))
	}
	return solverVer
}

type Evidence struct {
	PropertyID  string                 `json:"property_id"`
	Tier        string                 `json:"tier"`
	Seed        int                    `json:"seed"`
	Level       string                 `json:"level"`
	Coverage    map[string]interface{} `json:"coverage"`
	Assumptions []string               `json:"assumptions"`
	WallS       float64                `json:"wall_s"`
	Violations  int                    `json:"violations"`
}

func writeEvidence(path string, ev *Evidence) {
	os.MkdirAll(filepath.Dir(path), 0755)
	if ev.Assumptions == nil {
		ev.Assumptions = []string{}
	}
	b, _ := json.MarshalIndent(ev, "", " ")
	if err := os.WriteFile(path, append(b, '\n'), 0644); err != nil {
		fmt.Fprintln(os.Stderr, "evidence:", err)
	}
}

type ReplayFile struct {
	Property  string           `json:"property"`
	Tier      string           `json:"tier"`
	Files     []string         `json:"harness_files"`
	Run       RunCfg           `json:"run"`
	Violation *Violation       `json:"violation"`
	Signature string           `json:"signature"`
	Note      string           `json:"note"`
	Params    map[string]int64 `json:"params,omitempty"`
}

func writeReplay(path, id, tier string, spec *PropSpec, res *RunResult, v *Violation) {
	rf := ReplayFile{Property: id, Tier: tier, Files: spec.Files, Run: res.Cfg, Violation: v, Signature: v.Signature(),
		Note: "replay with: ./gpv replay " + path + " (re-executes /repo's current code along the recorded decisions and re-asks the solver)"}
	b, _ := json.MarshalIndent(rf, "", " ")
	os.WriteFile(path, append(b, '\n'), 0644)
}

func runFiles(spec *PropSpec, run string) []string {
	for _, r := range spec.Runs {
		if r.Name == run && len(r.Files) > 0 {
			return r.Files
		}
	}
	return spec.Files
}

func cmdReplay(args []string) int {
	if len(args) < 1 {
		fmt.Fprintln(os.Stderr, "replay: need a file")
		return 2
	}
	b, err := os.ReadFile(args[0])
	if err != nil {
		fmt.Fprintln(os.Stderr, err)
		return 2
	}
	var rf ReplayFile
	if err := json.Unmarshal(b, &rf); err != nil {
		fmt.Fprintln(os.Stderr, err)
		return 2
	}
	// the harness files are those the property's specification names for this run today (the stored list is a fallback)
	files := rf.Files
	if spec, err := loadSpec(rf.Property); err == nil {
		for _, r := range spec.Runs {
			if r.Name == rf.Run.Name {
				files = runFiles(spec, r.Name)
			}
		}
	}
	p, err := loadProgram(harnessPaths(files), nil)
	if err != nil {
		fmt.Fprintln(os.Stderr, err)
		return 2
	}
	if p.pkg.Func(rf.Run.Entry) == nil {
		fmt.Fprintf(os.Stderr, "replay: harness function %s is not in %v\n", rf.Run.Entry, files)
		return 2
	}
	// 1. the recorded path: every recorded decision must still be feasible in the current code
	cfg := rf.Run
	cfg.Workers = 1
	cfg.FixedPath = rf.Violation.Decisions
	cfg.FixedLabels = rf.Violation.DecLabels
	res, err := explore(p, cfg)
	if err != nil {
		fmt.Fprintln(os.Stderr, err)
		return 2
	}
	printResult(res, true)
	if res.Diverged == "" {
		for sig := range res.Viols {
			if sig == rf.Signature {
				fmt.Printf("REPRODUCED property=%s %s (recorded path, %d decisions)\n", rf.Property, sig, len(rf.Violation.Decisions))
				return 1
			}
		}
	}
	if res.Diverged != "" {
		fmt.Printf("replay: the recorded path does not exist in the current code: %s\n", res.Diverged)
	} else {
		fmt.Printf("replay: the recorded path exists in the current code and no longer violates\n")
	}
	// 2. the same violation may exist on another path of the current code: explore the run at its recorded bound
	cfg = rf.Run
	cfg.FixedPath = nil
	cfg.Workers = 16
	cfg.CrossCheck = 0
	res, err = explore(p, cfg)
	if err != nil {
		fmt.Fprintln(os.Stderr, err)
		return 2
	}
	printResult(res, false)
	for sig, g := range res.Viols {
		if sig == rf.Signature {
			fmt.Printf("REPRODUCED property=%s %s (on %d path(s) of the current code, run %s re-explored)\n", rf.Property, sig, g.Count, cfg.Name)
			return 1
		}
	}
	if len(res.Inconc) > 0 {
		fmt.Printf("INCONCLUSIVE property=%s: the re-exploration did not complete\n", rf.Property)
		return 2
	}
	fmt.Printf("NOT-REPRODUCED property=%s %s\n", rf.Property, rf.Signature)
	return 0
}

func cmdSelftest(args []string) int {
	// the solver must be there and must answer
	s := newSolver()
	defer s.close()
	s.declare("x", "BV8")
	if r := s.check("(= (bvadd x (_ bv1 8)) (_ bv0 8))"); r != "sat" {
		fmt.Println("selftest: solver answered", r)
		return 2
	}
	if r := s.check("(and (bvult x (_ bv4 8)) (bvugt x (_ bv9 8)))"); r != "unsat" {
		fmt.Println("selftest: solver answered", r)
		return 2
	}
	// the interpreter on two tiny programs with a known outcome
	p, err := loadProgram(harnessPaths([]string{"prims.go", "selftest.go"}), nil)
	if err != nil {
		fmt.Println("selftest: load:", err)
		return 2
	}
	good, err := explore(p, RunCfg{Name: "selftest", Entry: "harnessSelftest", Workers: 2})
	if err != nil || len(good.Viols) != 0 || len(good.Inconc) != 0 || good.Covers["selftest-done"] == 0 {
		fmt.Println("selftest: the passing program did not pass:", err)
		if good != nil {
			printResult(good, true)
		}
		return 2
	}
	bad, err := explore(p, RunCfg{Name: "selftest-bad", Entry: "harnessSelftestBad", Workers: 2})
	if err != nil || len(bad.Viols) != 1 {
		fmt.Println("selftest: the failing program was not reported:", err)
		return 2
	}
	fmt.Println("selftest ok:", solverVersion())
	return 0
}
