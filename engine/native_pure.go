package main

import (
	"bytes"
	"fmt"
	"go/types"
	"path/filepath"
	"reflect"
	"sort"
	"strconv"
	"strings"
	"unicode"
)

// Pure standard-library functions: when every argument is concrete the real function is simply called (the encoding
// of a concrete computation is its result). With a symbolic argument the structural string operations apply where one
// exists; otherwise the call is unsupported (inconclusive), never approximated.
var nativePure = map[string]interface{}{
	"strings.Index": strings.Index, "strings.IndexByte": strings.IndexByte, "strings.IndexAny": strings.IndexAny, "strings.LastIndex": strings.LastIndex,
	"strings.Contains": strings.Contains, "strings.ContainsAny": strings.ContainsAny, "strings.ContainsRune": strings.ContainsRune,
	"strings.Count": strings.Count, "strings.EqualFold": strings.EqualFold, "strings.Fields": strings.Fields,
	"strings.HasPrefix": strings.HasPrefix, "strings.HasSuffix": strings.HasSuffix, "strings.Repeat": strings.Repeat,
	"strings.Replace": strings.Replace, "strings.ReplaceAll": strings.ReplaceAll, "strings.Split": strings.Split, "strings.SplitN": strings.SplitN,
	"strings.SplitAfter": strings.SplitAfter, "strings.Title": strings.Title, "strings.ToLower": strings.ToLower, "strings.ToUpper": strings.ToUpper,
	"strings.Trim": strings.Trim, "strings.TrimLeft": strings.TrimLeft, "strings.TrimRight": strings.TrimRight, "strings.TrimSpace": strings.TrimSpace,
	"strings.TrimPrefix": strings.TrimPrefix, "strings.TrimSuffix": strings.TrimSuffix, "strings.Join": strings.Join, "strings.Compare": strings.Compare,
	"strings.Cut": strings.Cut, "strings.CutPrefix": strings.CutPrefix, "strings.CutSuffix": strings.CutSuffix,
	"strconv.Atoi": strconv.Atoi, "strconv.Itoa": strconv.Itoa, "strconv.ParseInt": strconv.ParseInt, "strconv.ParseUint": strconv.ParseUint,
	"strconv.ParseBool": strconv.ParseBool, "strconv.FormatInt": strconv.FormatInt, "strconv.FormatUint": strconv.FormatUint, "strconv.FormatBool": strconv.FormatBool,
	"strconv.Quote": strconv.Quote, "strconv.Unquote": strconv.Unquote,
	"bytes.Equal": bytes.Equal, "bytes.HasPrefix": bytes.HasPrefix, "bytes.HasSuffix": bytes.HasSuffix, "bytes.TrimSpace": bytes.TrimSpace,
	"bytes.Contains": bytes.Contains, "bytes.Index": bytes.Index, "bytes.IndexByte": bytes.IndexByte,
	"path/filepath.Base": filepath.Base, "path/filepath.Dir": filepath.Dir, "path/filepath.Join": filepath.Join, "path/filepath.IsAbs": filepath.IsAbs,
	"path/filepath.Clean": filepath.Clean, "path/filepath.Ext": filepath.Ext,
	"unicode.IsSpace": unicode.IsSpace, "unicode.IsDigit": unicode.IsDigit, "unicode.IsLetter": unicode.IsLetter, "unicode.IsUpper": unicode.IsUpper,
	"unicode.ToLower": unicode.ToLower, "unicode.ToUpper": unicode.ToUpper,
	"sort.SearchInts": sort.SearchInts, "sort.SearchStrings": sort.SearchStrings, "sort.IntsAreSorted": sort.IntsAreSorted,
}

// toNative converts an interpreter value to a Go value of type t; ok=false if it is not concrete
func (it *Interp) toNative(v Value, t reflect.Type) (reflect.Value, bool) {
	switch t.Kind() {
	case reflect.String:
		s, ok := v.(*StrV)
		if !ok {
			return reflect.Value{}, false
		}
		c, ok := s.isConc()
		if !ok {
			return reflect.Value{}, false
		}
		return reflect.ValueOf(c).Convert(t), true
	case reflect.Int, reflect.Int8, reflect.Int16, reflect.Int32, reflect.Int64:
		i, ok := v.(int64)
		if !ok {
			return reflect.Value{}, false
		}
		return reflect.ValueOf(i).Convert(t), true
	case reflect.Uint, reflect.Uint8, reflect.Uint16, reflect.Uint32, reflect.Uint64:
		i, ok := v.(int64)
		if !ok {
			return reflect.Value{}, false
		}
		return reflect.ValueOf(uint64(i)).Convert(t), true
	case reflect.Bool:
		b, ok := v.(bool)
		if !ok {
			return reflect.Value{}, false
		}
		return reflect.ValueOf(b), true
	case reflect.Slice:
		sl, ok := v.(SliceV)
		if !ok {
			return reflect.Value{}, false
		}
		if sl.arr == nil {
			return reflect.Zero(t), true
		}
		n, ok := sl.ln.(int64)
		if !ok {
			return reflect.Value{}, false
		}
		if t.Elem().Kind() == reflect.Uint8 {
			switch a := sl.arr.v.(type) {
			case *StrBytes:
				c, ok := a.s.isConc()
				if !ok {
					return reflect.Value{}, false
				}
				return reflect.ValueOf([]byte(c)), true
			case *ByteBuf:
				return reflect.Value{}, false
			}
		}
		arr, ok := sl.arr.v.(*ArrayV)
		if !ok {
			return reflect.Value{}, false
		}
		out := reflect.MakeSlice(t, int(n), int(n))
		for i := 0; i < int(n); i++ {
			e, ok := it.toNative(arr.E[sl.off+i], t.Elem())
			if !ok {
				return reflect.Value{}, false
			}
			out.Index(i).Set(e)
		}
		return out, true
	}
	return reflect.Value{}, false
}

func (it *Interp) fromNative(v reflect.Value) Value {
	switch v.Kind() {
	case reflect.String:
		return conc(v.String())
	case reflect.Int, reflect.Int8, reflect.Int16, reflect.Int32, reflect.Int64:
		return v.Int()
	case reflect.Uint, reflect.Uint8, reflect.Uint16, reflect.Uint32, reflect.Uint64:
		return int64(v.Uint())
	case reflect.Bool:
		return v.Bool()
	case reflect.Slice:
		if v.Type().Elem().Kind() == reflect.Uint8 {
			return it.convert(conc(string(v.Bytes())), types.Typ[types.String], types.NewSlice(types.Typ[types.Uint8]))
		}
		arr := &ArrayV{}
		for i := 0; i < v.Len(); i++ {
			arr.E = append(arr.E, it.fromNative(v.Index(i)))
		}
		if v.IsNil() {
			return SliceV{ln: int64(0)}
		}
		return SliceV{arr: it.newObj(nil, arr), ln: int64(v.Len()), cp: v.Len()}
	case reflect.Interface:
		if v.IsNil() {
			return IfaceV{}
		}
		if err, ok := v.Interface().(error); ok {
			return it.mkError(conc(err.Error()))
		}
	}
	panic(fmt.Sprintf("fromNative %s", v.Type()))
}

// callNativePure: ok=false if the function is not in the table or some argument is symbolic
func (it *Interp) callNativePure(name string, args []Value) (Value, bool) {
	f, ok := nativePure[name]
	if !ok {
		return nil, false
	}
	fv := reflect.ValueOf(f)
	ft := fv.Type()
	if ft.IsVariadic() || ft.NumIn() != len(args) {
		return nil, false
	}
	in := make([]reflect.Value, len(args))
	for i := range args {
		v, ok := it.toNative(args[i], ft.In(i))
		if !ok {
			return nil, false
		}
		in[i] = v
	}
	out := fv.Call(in)
	switch len(out) {
	case 0:
		return nil, true
	case 1:
		return it.fromNative(out[0]), true
	}
	tv := make(TupleV, len(out))
	for i := range out {
		tv[i] = it.fromNative(out[i])
	}
	return tv, true
}
