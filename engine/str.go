package main

import (
	"fmt"
	"strconv"
	"strings"
)

// literal constants of sort Str, with their concrete facts asserted once per run
func (it *Interp) lit(s string) string {
	if s == "" {
		return "lit_empty"
	}
	if n, ok := it.lits[s]; ok {
		return n
	}
	name := fmt.Sprintf("lit_%d", len(it.lits))
	// distinctness from earlier literals
	it.sol.send(fmt.Sprintf("(declare-const %s Str)", name))
	for _, other := range it.lits {
		it.sol.assert("(not (= " + name + " " + other + "))")
	}
	it.sol.assert("(not (= " + name + " lit_empty))")
	it.lits[s] = name
	it.sol.assert(fmt.Sprintf("(= (len %s) %s)", name, bvLit(int64(len(s)), 64)))
	if v, err := strconv.Atoi(s); err == nil {
		it.sol.assert("(atoi_ok " + name + ")")
		it.sol.assert(fmt.Sprintf("(= (atoi_val %s) %s)", name, bvLit(int64(v), 64)))
	} else {
		it.sol.assert("(not (atoi_ok " + name + "))")
	}
	return name
}

func (it *Interp) atomTerm(a Atom) string {
	if a.Line != nil {
		return "line_" + sanitize(a.Line.Name)
	}
	if a.Sym != "" {
		return a.Sym
	}
	return it.lit(a.Lit)
}

func (it *Interp) strTerm(s *StrV) string {
	n := s.norm()
	if len(n.A) == 0 {
		return "lit_empty"
	}
	t := it.atomTerm(n.A[0])
	for _, a := range n.A[1:] {
		r := it.atomTerm(a)
		c := "(cat " + t + " " + r + ")"
		if !it.catSeen[c] {
			it.catSeen[c] = true
			it.sol.assert("(= (len " + c + ") (bvadd (len " + t + ") (len " + r + ")))")
		}
		t = c
	}
	return t
}

// keep f(lit) facts complete for every (uf, literal) pair in use
func (it *Interp) syncUfLits() {
	for name, f := range it.ufStrUsed {
		for l := range it.lits {
			k := name + "|" + l
			if it.catSeen[k] {
				continue
			}
			it.catSeen[k] = true
			r := f(l)
			it.sol.assert("(= (uf_" + name + " " + it.lit(l) + ") " + it.lit(r) + ")")
		}
		k := name + "|"
		if !it.catSeen[k] {
			it.catSeen[k] = true
			it.sol.assert("(= (uf_" + name + " lit_empty) lit_empty)")
		}
	}
}

func (it *Interp) strEq(a, b *StrV) Value {
	defer it.syncUfLits()
	ca, oka := a.isConc()
	cb, okb := b.isConc()
	if oka && okb {
		return ca == cb
	}
	return &Sym{T: "(= " + it.strTerm(a) + " " + it.strTerm(b) + ")", S: "Bool"}
}

func (it *Interp) strLen(s *StrV) Value {
	n := s.norm()
	t := ""
	for _, a := range n.A {
		var p string
		if a.Sym != "" {
			p = "(len " + a.Sym + ")"
		} else {
			p = bvLit(int64(len(a.Lit)), 64)
		}
		if t == "" {
			t = p
		} else {
			t = "(bvadd " + t + " " + p + ")"
		}
	}
	return &Sym{T: t, S: "BV64"}
}

func sepFree(a Atom, sep string) bool {
	if a.Sym == "" {
		return !strings.Contains(a.Lit, sep)
	}
	if a.NoSep == "*digits" {
		return strings.Trim(sep, "-0123456789") == sep && sep != ""
	}
	return sep != "" && strings.Contains(a.NoSep, sep)
}

// structural split on a literal separator
func (it *Interp) strSplit(s *StrV, sep string) []*StrV {
	var out []*StrV
	cur := &StrV{}
	for _, a := range s.norm().A {
		if a.Sym != "" {
			if !sepFree(a, sep) {
				it.unsup("Split on atom %s not known free of %q", a.Sym, sep)
			}
			cur.A = append(cur.A, a)
			continue
		}
		parts := strings.Split(a.Lit, sep)
		for i, p := range parts {
			if i > 0 {
				out = append(out, cur.norm())
				cur = &StrV{}
			}
			if p != "" {
				cur.A = append(cur.A, Atom{Lit: p})
			}
		}
	}
	out = append(out, cur.norm())
	return out
}
