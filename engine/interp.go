package main

import (
	"fmt"
	"os"
	"sort"
	"sync/atomic"
	"runtime"
	"runtime/debug"
	"go/constant"
	"go/token"
	"go/types"
	"strings"

	"golang.org/x/tools/go/ssa"
)

type goPanic struct {
	val Value
	msg string
}
type unsupported struct{ what string }
type pathEnd struct{ why string }

type frame struct {
	fn      *ssa.Function
	env     map[ssa.Value]Value
	defers  []func()
	visits  map[*ssa.BasicBlock]int
	pan     *goPanic
	inDefer bool
	caller  *frame
}

type Interp struct {
	prog    *ssa.Program
	pkg     *ssa.Package
	sol     *Solver
	ex      *Explorer
	nobj    int
	nsym    int
	globals map[*ssa.Global]*Obj
	procGlobals map[string]*Obj
	penv    map[string]*StrV
	covers  map[string]int
	viols   []*Violation
	steps   int
	assertQ int
	cfg     *RunCfg
	expired *int32
	res     *RunResult
	liveDesc string
	tags    []string
	fnSteps map[*ssa.Function]int
	pc      []string
	syms    []string // declared symbolic inputs (for models)
	symSort map[string]string
	lines   map[string]*LineV
	ufIsStr map[string]bool
	cur     *frame
	inconc  []string
	lits    map[string]string
	catSeen map[string]bool
	sch     *Sched
	models  map[string]string
	nchan   int
	curPos  string
	curInRepo string
	records []rec
	subs    map[string]subInfo
	prefixes map[string][]string
	ufStrUsed map[string]func(string) string
	wraps   map[int][]Value
}

func (it *Interp) unsup(f string, a ...interface{}) {
	msg := fmt.Sprintf(f, a...)
	if it.sch != nil && it.sch.cur != nil && it.sch.cur.fr != nil {
		var chain []string
		for fr := it.sch.cur.fr; fr != nil && len(chain) < 6; fr = fr.caller {
			chain = append(chain, fr.fn.String())
		}
		msg += " [in " + strings.Join(chain, " <- ") + "]"
	}
	panic(unsupported{msg})
}

func (it *Interp) assume(t string) {
	it.pc = append(it.pc, t)
	it.sol.assert(t)
}

func (it *Interp) fresh(tag, sort string) *Sym {
	it.nsym++
	name := fmt.Sprintf("%s!%d", sanitize(tag), it.nsym)
	it.sol.declare(name, sort)
	it.syms = append(it.syms, name)
	it.symSort[name] = sort
	return &Sym{T: name, S: sort}
}

func sanitize(s string) string {
	return strings.Map(func(r rune) rune {
		if r >= 'a' && r <= 'z' || r >= 'A' && r <= 'Z' || r >= '0' && r <= '9' || r == '_' {
			return r
		}
		return '_'
	}, s)
}

func (it *Interp) newObj(t types.Type, v Value) *Obj {
	it.nobj++
	return &Obj{id: it.nobj, typ: t, v: v}
}

// ---------- branching ----------

func (it *Interp) branch(c Value, label string) bool {
	switch x := c.(type) {
	case bool:
		return x
	case *Sym:
		k := it.ex.decide(label, func() []int {
			var a []int
			for _, side := range []int{1, 0} {
				t := x.T
				if side == 0 {
					t = "(not " + t + ")"
				}
				switch it.sol.check(t) {
				case "sat":
					a = append(a, side)
				case "unsat":
				default:
					it.inconc = append(it.inconc, "unknown at "+label)
					a = append(a, side)
				}
			}
			return a
		})
		if k == 1 {
			it.assume(x.T)
			return true
		}
		it.assume("(not " + x.T + ")")
		return false
	}
	panic(fmt.Sprintf("branch on %T", c))
}

func (it *Interp) choose(n int, label string) int {
	return it.ex.decide(label, func() []int {
		a := make([]int, n)
		for i := range a {
			a[i] = i
		}
		return a
	})
}

// ---------- types ----------

func intInfo(t types.Type) (w int, signed bool, ok bool) {
	b, isB := t.Underlying().(*types.Basic)
	if !isB {
		return
	}
	switch b.Kind() {
	case types.Int, types.Int64, types.UntypedInt:
		return 64, true, true
	case types.Uint, types.Uint64, types.Uintptr:
		return 64, false, true
	case types.Int32, types.UntypedRune:
		return 32, true, true
	case types.Uint32:
		return 32, false, true
	case types.Int16:
		return 16, true, true
	case types.Uint16:
		return 16, false, true
	case types.Int8:
		return 8, true, true
	case types.Uint8:
		return 8, false, true
	}
	return
}

func normInt(v int64, w int, signed bool) int64 {
	if w == 64 {
		return v
	}
	m := uint64(1)<<uint(w) - 1
	u := uint64(v) & m
	if signed && u>>(uint(w)-1) == 1 {
		u |= ^m
	}
	return int64(u)
}

func bvLit(v int64, w int) string {
	u := uint64(v)
	if w < 64 {
		u &= uint64(1)<<uint(w) - 1
	}
	return fmt.Sprintf("(_ bv%d %d)", u, w)
}

func (it *Interp) iterm(v Value, w int) string {
	switch x := v.(type) {
	case int64:
		return bvLit(x, w)
	case *Sym:
		return x.T
	}
	panic(fmt.Sprintf("iterm %T", v))
}

func (it *Interp) zero(t types.Type) Value {
	switch u := t.Underlying().(type) {
	case *types.Basic:
		switch {
		case u.Info()&types.IsBoolean != 0:
			return false
		case u.Info()&types.IsInteger != 0:
			return int64(0)
		case u.Info()&types.IsString != 0:
			return conc("")
		case u.Info()&types.IsFloat != 0:
			return float64(0)
		case u.Kind() == types.UnsafePointer:
			return Ptr{}
		case u.Kind() == types.UntypedNil:
			return nil
		}
	case *types.Pointer:
		return Ptr{}
	case *types.Struct:
		s := &StructV{F: make([]Value, u.NumFields())}
		for i := range s.F {
			s.F[i] = it.zero(u.Field(i).Type())
		}
		return s
	case *types.Array:
		a := &ArrayV{E: make([]Value, u.Len())}
		for i := range a.E {
			a.E[i] = it.zero(u.Elem())
		}
		return a
	case *types.Slice:
		return SliceV{ln: int64(0)}
	case *types.Map:
		return (*MapV)(nil)
	case *types.Chan:
		return (*ChanV)(nil)
	case *types.Signature:
		return (*FuncV)(nil)
	case *types.Interface:
		return IfaceV{}
	case *types.Tuple:
		tv := make(TupleV, u.Len())
		for i := range tv {
			tv[i] = it.zero(u.At(i).Type())
		}
		return tv
	}
	it.unsup("zero of %s", t)
	return nil
}

// ---------- memory ----------

func (it *Interp) nilDeref() { panic(&goPanic{msg: "nil pointer dereference"}) }

func (it *Interp) load(p Ptr) Value {
	if p.o == nil {
		it.nilDeref()
	}
	v := p.o.v
	for _, i := range p.path {
		switch c := v.(type) {
		case *StructV:
			v = c.F[i]
		case *ArrayV:
			v = c.E[i]
		case *StrBytes: // b[i] of a []byte that is a view over an abstract string
			return it.strByte(c.s, i)
		case *ByteBuf:
			return it.strByte(c.s, i)
		default:
			panic(fmt.Sprintf("load path into %T", v))
		}
	}
	return copyVal(v)
}

// strByte: s[i]. Exact for concrete strings and inside a leading literal; the first byte of a symbolic atom is the
// attribute char0 of that atom (related to its other attributes by the facts asserted where they are introduced);
// any other position of a symbolic atom is unsupported.
func (it *Interp) strByte(s *StrV, i int) Value {
	n := s.norm()
	if len(n.A) > 0 && n.A[0].Sym == "" && n.A[0].Line == nil && i < len(n.A[0].Lit) {
		return int64(n.A[0].Lit[i])
	}
	if c, ok := n.isConc(); ok {
		if i >= len(c) {
			panic(&goPanic{msg: "index out of range"})
		}
		return int64(c[i])
	}
	if i == 0 && len(n.A) > 0 && n.A[0].Sym != "" {
		a := n.A[0].Sym
		if !it.sol.decl["char0"] {
			it.sol.decl["char0"] = true
			it.sol.send("(declare-fun char0 (Str) (_ BitVec 8))")
		}
		// an empty first atom would make this the first byte of what follows; require it non-empty on this path
		nonEmpty := &Sym{T: "(bvugt (len " + a + ") (_ bv0 64))", S: "Bool"}
		if !it.branch(nonEmpty, "char0-nonempty") {
			if len(n.A) == 1 {
				panic(&goPanic{msg: "index out of range [0] with length 0"})
			}
			it.unsup("first byte of a string whose first atom is empty")
		}
		return &Sym{T: "(char0 " + a + ")", S: "BV8"}
	}
	it.unsup("byte %d of a symbolic string", i)
	return nil
}

func (it *Interp) store(p Ptr, val Value) {
	if p.o == nil {
		it.nilDeref()
	}
	val = copyVal(val)
	if len(p.path) == 0 {
		p.o.v = val
		return
	}
	v := p.o.v
	for _, i := range p.path[:len(p.path)-1] {
		switch c := v.(type) {
		case *StructV:
			v = c.F[i]
		case *ArrayV:
			v = c.E[i]
		}
	}
	last := p.path[len(p.path)-1]
	switch c := v.(type) {
	case *StructV:
		c.F[last] = val
	case *ArrayV:
		c.E[last] = val
	}
}

func (p Ptr) sub(i int) Ptr {
	np := make([]int, len(p.path)+1)
	copy(np, p.path)
	np[len(p.path)] = i
	return Ptr{o: p.o, path: np}
}

// ---------- operand evaluation ----------

func (it *Interp) get(fr *frame, v ssa.Value) Value {
	switch x := v.(type) {
	case *ssa.Const:
		return it.constVal(x)
	case *ssa.Function:
		return &FuncV{fn: x}
	case *ssa.Builtin:
		return &FuncV{name: x.Name()}
	case *ssa.Global:
		return Ptr{o: it.global(x)}
	}
	if r, ok := fr.env[v]; ok {
		return r
	}
	panic(fmt.Sprintf("no value for %s (%T) in %s", v.Name(), v, fr.fn))
}

func (it *Interp) global(g *ssa.Global) *Obj {
	if g.Pkg != nil && g.Pkg.Pkg.Path() == "os" && (g.Name() == "Stdin" || g.Name() == "Stdout" || g.Name() == "Stderr") {
		// every modelled OS process has its own standard streams
		proc := 0
		if it.sch != nil && it.sch.cur != nil {
			proc = it.sch.cur.proc
		}
		k := fmt.Sprintf("%s#%d", g.Name(), proc)
		if o, ok := it.procGlobals[k]; ok {
			return o
		}
		pt := g.Type().(*types.Pointer).Elem()
		o := it.newObj(pt, Ptr{o: it.newObj(pt.Underlying().(*types.Pointer).Elem(), it.zero(pt.Underlying().(*types.Pointer).Elem()))})
		if it.procGlobals == nil {
			it.procGlobals = map[string]*Obj{}
		}
		it.procGlobals[k] = o
		return o
	}
	if o, ok := it.globals[g]; ok {
		return o
	}
	et := g.Type().(*types.Pointer).Elem()
	o := it.newObj(et, it.zero(et))
	it.globals[g] = o
	if g.Pkg != nil && !strings.HasPrefix(g.Pkg.Pkg.Path(), "github.com/hashicorp/go-plugin") {
		if types.Identical(et, types.Universe.Lookup("error").Type()) {
			o.v = it.mkError(conc(g.String())) // opaque sentinel with stable identity
		} else if dt := discardType(g); dt != nil {
			// io.Discard: the real (unexported) io.discard value, so that its Write can be executed
			o.v = IfaceV{t: dt, v: it.zero(dt)}
		} else if _, isIface := et.Underlying().(*types.Interface); isIface {
			// an opaque non-nil singleton with stable identity
			nt := types.NewNamed(types.NewTypeName(token.NoPos, g.Pkg.Pkg, "opaque_"+g.Name(), nil), types.NewStruct(nil, nil), nil)
			o.v = IfaceV{t: types.NewPointer(nt), v: Ptr{o: it.newObj(nt, &StructV{})}}
		} else if pt, isPtr := et.Underlying().(*types.Pointer); isPtr && g.Pkg.Pkg.Path() == "os" && (g.Name() == "Stdin" || g.Name() == "Stdout" || g.Name() == "Stderr") {
			o.v = Ptr{o: it.newObj(pt.Elem(), it.zero(pt.Elem()))}
		}
	}
	return o
}

// discardType returns the type of the value io.Discard holds (io.discard), or nil if g is not io.Discard
func discardType(g *ssa.Global) types.Type {
	if g.Pkg == nil || g.Name() != "Discard" || (g.Pkg.Pkg.Path() != "io" && g.Pkg.Pkg.Path() != "io/ioutil") {
		return nil
	}
	iop := g.Pkg
	if iop.Pkg.Path() != "io" { // ioutil.Discard is initialised to io.Discard
		iop = nil
		for _, p := range g.Pkg.Prog.AllPackages() {
			if p.Pkg.Path() == "io" {
				iop = p
			}
		}
		if iop == nil {
			return nil
		}
	}
	if m, ok := iop.Members["discard"].(*ssa.Type); ok {
		return m.Type()
	}
	return nil
}

func (it *Interp) constVal(c *ssa.Const) Value {
	t := c.Type()
	if c.Value == nil {
		return it.zero(t)
	}
	switch u := t.Underlying().(type) {
	case *types.Basic:
		switch {
		case u.Info()&types.IsBoolean != 0:
			return constant.BoolVal(c.Value)
		case u.Info()&types.IsInteger != 0:
			w, s, _ := intInfo(t)
			if i, ok := constant.Int64Val(constant.ToInt(c.Value)); ok {
				return normInt(i, w, s)
			}
			u64, _ := constant.Uint64Val(constant.ToInt(c.Value))
			return int64(u64)
		case u.Info()&types.IsString != 0:
			return conc(constant.StringVal(c.Value))
		case u.Info()&types.IsFloat != 0:
			f, _ := constant.Float64Val(c.Value)
			return f
		}
	}
	it.unsup("const %s", c)
	return nil
}

// ---------- function execution ----------

func (it *Interp) call(fn *ssa.Function, args []Value, env []Value, caller *frame) Value {
	name := fn.String()
	if fn.Name() == "init" && fn.Pkg != nil && !strings.HasPrefix(fn.Pkg.Pkg.Path(), "github.com/hashicorp/go-plugin") {
		return nil
	}
	if strings.HasPrefix(fn.Name(), "init#") {
		return nil
	}
	if fn.Name() == "init" && fn.Pkg != nil && strings.HasSuffix(fn.Pkg.Pkg.Path(), "internal/plugin") {
		return nil
	}
	if m, ok := it.models[name]; ok && (caller == nil || caller.fn.Name() != m) { // harness models win; a model may call the original
		mf := it.pkg.Func(m)
		if mf == nil {
			it.unsup("model %s for %s not found", m, name)
		}
		return it.call(mf, args, nil, caller)
	}
	if _, pure := nativePure[name]; pure {
		if r, ok := it.callNativePure(name, args); ok {
			return r // every argument concrete: the real function's result
		}
	}
	if h, ok := intrinsics[name]; ok {
		return h(it, args)
	}
	if fn.Blocks == nil {
		it.unsup("external function %s", name)
	}
	fr := &frame{fn: fn, env: map[ssa.Value]Value{}, caller: caller}
	for i, p := range fn.Params {
		fr.env[p] = args[i]
	}
	for i, fv := range fn.FreeVars {
		fr.env[fv] = env[i]
	}
	return it.run(fr)
}

type blockResult struct {
	next *ssa.BasicBlock
	ret  Value
	done bool
}

func (it *Interp) run(fr *frame) Value {
	block := fr.fn.Blocks[0]
	var prev *ssa.BasicBlock
	for {
		it.fnSteps[fr.fn] += len(block.Instrs)
		if len(block.Preds) > 1 {
			if fr.visits == nil {
				fr.visits = map[*ssa.BasicBlock]int{}
			}
			fr.visits[block]++
			if fr.visits[block] > it.cfg.Unwind {
				panic(pathEnd{fmt.Sprintf("unwind limit %d reached in %s", it.cfg.Unwind, fr.fn)})
			}
		}
		res, pan := it.execBlock(fr, block, prev)
		if pan != nil {
			fr.pan = pan
			it.runDefers(fr)
			if fr.pan != nil {
				panic(fr.pan)
			}
			if fr.fn.Recover != nil {
				prev, block = block, fr.fn.Recover
				continue
			}
			return it.zeroResults(fr.fn)
		}
		if res.done {
			return res.ret
		}
		prev, block = block, res.next
	}
}

func (it *Interp) zeroResults(fn *ssa.Function) Value {
	r := fn.Signature.Results()
	switch r.Len() {
	case 0:
		return nil
	case 1:
		return it.zero(r.At(0).Type())
	}
	return it.zero(r)
}

func (it *Interp) runDefers(fr *frame) {
	for len(fr.defers) > 0 {
		d := fr.defers[len(fr.defers)-1]
		fr.defers = fr.defers[:len(fr.defers)-1]
		func() {
			defer func() {
				if r := recover(); r != nil {
					if gp, ok := r.(*goPanic); ok {
						fr.pan = gp // a panic in a deferred call replaces the current one
						return
					}
					panic(r)
				}
			}()
			fr.inDefer = true
			d()
			fr.inDefer = false
		}()
	}
}

func (it *Interp) execBlock(fr *frame, b, prev *ssa.BasicBlock) (res blockResult, pan *goPanic) {
	defer func() {
		if r := recover(); r != nil {
			if gp, ok := r.(*goPanic); ok {
				pan = gp
				return
			}
			if _, isRT := r.(runtime.Error); isRT && debugStack && !stackPrinted {
				stackPrinted = true
				fmt.Fprintf(os.Stderr, "ORIGIN %v in %s\n%s\n", r, fr.fn, debug.Stack())
			}
			panic(r)
		}
	}()
	if it.sch.cur != nil {
		it.sch.cur.fr = fr
	}
	// phis are parallel assignments: all are evaluated in the predecessor's environment before any is written
	// (a loop that swaps two variables has phis reading each other)
	if len(b.Instrs) > 0 {
		if _, isPhi := b.Instrs[0].(*ssa.Phi); isPhi {
			var phis []*ssa.Phi
			var vals []Value
			for _, ins := range b.Instrs {
				x, ok := ins.(*ssa.Phi)
				if !ok {
					break
				}
				for i, p := range b.Preds {
					if p == prev {
						phis = append(phis, x)
						vals = append(vals, it.get(fr, x.Edges[i]))
						break
					}
				}
			}
			for i, x := range phis {
				fr.env[x] = vals[i]
			}
		}
	}
	for _, ins := range b.Instrs {
		it.steps++
		if it.steps > it.cfg.StepLimit {
			panic(pathEnd{"step limit"})
		}
		if debugStack && it.steps%500000 == 0 {
			var chain []string
			for f := fr; f != nil && len(chain) < 8; f = f.caller {
				chain = append(chain, f.fn.String())
			}
			fmt.Fprintf(os.Stderr, "STEPS %d in %s\n", it.steps, strings.Join(chain, " <- "))
		}
		if it.steps&1023 == 0 && it.expired != nil && atomic.LoadInt32(it.expired) == 1 {
			panic(pathEnd{"wall limit"})
		}
		if pos := ins.Pos(); pos.IsValid() {
			pp := it.prog.Fset.Position(pos)
			if strings.HasPrefix(pp.Filename, repoDir+"/") && !strings.Contains(pp.Filename, "zz_verif") {
				it.curPos = fmt.Sprintf("%s:%d", pp.Filename, pp.Line)
				it.curInRepo = it.curPos
			} else if strings.Contains(pp.Filename, "zz_verif") {
				it.curInRepo = ""
			}
		}
		switch x := ins.(type) {
		case *ssa.DebugRef:
		case *ssa.Phi: // assigned on block entry, above
		case *ssa.Alloc:
			et := x.Type().(*types.Pointer).Elem()
			fr.env[x] = Ptr{o: it.newObj(et, it.zero(et))}
		case *ssa.UnOp:
			if x.Op == token.MUL {
				if p, ok := it.get(fr, x.X).(Ptr); ok {
					it.raceAccess(p, false)
				}
			}
			fr.env[x] = it.unop(fr, x)
		case *ssa.BinOp:
			fr.env[x] = it.binop(x.Op, it.get(fr, x.X), it.get(fr, x.Y), x.X.Type())
		case *ssa.Call:
			fr.env[x] = it.doCall(fr, &x.Call)
			if it.sch.cur != nil {
				it.sch.cur.fr = fr
			}
		case *ssa.ChangeInterface:
			fr.env[x] = it.get(fr, x.X)
		case *ssa.ChangeType:
			fr.env[x] = it.get(fr, x.X)
		case *ssa.Convert:
			fr.env[x] = it.convert(it.get(fr, x.X), x.X.Type(), x.Type())
		case *ssa.MakeInterface:
			fr.env[x] = IfaceV{t: x.X.Type(), v: it.get(fr, x.X)}
		case *ssa.Extract:
			fr.env[x] = it.get(fr, x.Tuple).(TupleV)[x.Index]
		case *ssa.Field:
			fr.env[x] = copyVal(it.get(fr, x.X).(*StructV).F[x.Field])
		case *ssa.FieldAddr:
			p := it.get(fr, x.X).(Ptr)
			if p.o == nil {
				it.nilDeref()
			}
			fr.env[x] = p.sub(x.Field)
		case *ssa.IndexAddr:
			fr.env[x] = it.indexAddr(it.get(fr, x.X), it.get(fr, x.Index))
		case *ssa.Index:
			fr.env[x] = it.index(it.get(fr, x.X), it.get(fr, x.Index))
		case *ssa.Lookup:
			fr.env[x] = it.lookup(it.get(fr, x.X), it.get(fr, x.Index), x.CommaOk, x.Type())
		case *ssa.MakeMap:
			mt := x.Type().Underlying().(*types.Map)
			fr.env[x] = &MapV{kt: mt.Key(), vt: mt.Elem()}
		case *ssa.MapUpdate:
			it.mapUpdate(it.get(fr, x.Map), it.get(fr, x.Key), it.get(fr, x.Value))
		case *ssa.MakeSlice:
			n, ok := it.get(fr, x.Len).(int64)
			c, ok2 := it.get(fr, x.Cap).(int64)
			if !ok || !ok2 {
				it.unsup("make slice with symbolic size")
			}
			et := x.Type().Underlying().(*types.Slice).Elem()
			arr := &ArrayV{E: make([]Value, c)}
			for i := range arr.E {
				arr.E[i] = it.zero(et)
			}
			fr.env[x] = SliceV{arr: it.newObj(types.NewArray(et, c), arr), ln: n, cp: int(c)}
		case *ssa.MakeClosure:
			fv := &FuncV{fn: x.Fn.(*ssa.Function)}
			for _, b := range x.Bindings {
				fv.env = append(fv.env, it.get(fr, b))
			}
			fr.env[x] = fv
		case *ssa.Slice:
			fr.env[x] = it.slice(fr, x)
		case *ssa.Store:
			it.raceAccess(it.get(fr, x.Addr).(Ptr), true)
			it.store(it.get(fr, x.Addr).(Ptr), it.get(fr, x.Val))
		case *ssa.TypeAssert:
			fr.env[x] = it.typeAssert(x, it.get(fr, x.X).(IfaceV))
		case *ssa.Range:
			fr.env[x] = it.mkRange(it.get(fr, x.X))
		case *ssa.Next:
			fr.env[x] = it.next(it.get(fr, x.Iter).(*IterV), x)
		case *ssa.Defer:
			call := x.Call
			fn, args, env := it.resolveCall(fr, &call)
			fr.defers = append(fr.defers, func() { it.invoke(fr, fn, args, env) })
		case *ssa.RunDefers:
			it.runDefers(fr)
			if fr.pan != nil {
				panic(fr.pan)
			}
		case *ssa.If:
			if it.branch(it.get(fr, x.Cond), fr.fn.Name()+":"+b.String()) {
				return blockResult{next: b.Succs[0]}, nil
			}
			return blockResult{next: b.Succs[1]}, nil
		case *ssa.Jump:
			return blockResult{next: b.Succs[0]}, nil
		case *ssa.Return:
			switch len(x.Results) {
			case 0:
				return blockResult{done: true}, nil
			case 1:
				return blockResult{done: true, ret: it.get(fr, x.Results[0])}, nil
			}
			tv := make(TupleV, len(x.Results))
			for i, r := range x.Results {
				tv[i] = it.get(fr, r)
			}
			return blockResult{done: true, ret: tv}, nil
		case *ssa.MakeChan:
			n, _ := it.get(fr, x.Size).(int64)
			it.nchan++
			fr.env[x] = &ChanV{id: it.nchan, cap: int(n)}
		case *ssa.Send:
			c, _ := it.get(fr, x.Chan).(*ChanV)
			it.send(c, it.get(fr, x.X))
		case *ssa.Select:
			fr.env[x] = it.selectOp(fr, x)
		case *ssa.Go:
			call := x.Call
			fn, args, env := it.resolveCall(fr, &call)
			nm := "go"
			if fn.fn != nil {
				nm = fn.fn.Name()
			}
			it.spawn(nm, func() { it.invoke(nil, fn, args, env) })
		case *ssa.Panic:
			panic(&goPanic{val: it.get(fr, x.X), msg: "explicit panic: " + show(it.get(fr, x.X))})
		default:
			it.unsup("instruction %T in %s", ins, fr.fn)
		}
	}
	panic("block without terminator")
}

// resolveCall evaluates callee and args.
func (it *Interp) resolveCall(fr *frame, c *ssa.CallCommon) (*FuncV, []Value, []Value) {
	var args []Value
	if c.IsInvoke() {
		recv := it.get(fr, c.Value).(IfaceV)
		if recv.t == nil {
			it.nilDeref()
		}
		m := it.prog.LookupMethod(recv.t, c.Method.Pkg(), c.Method.Name())
		if m == nil {
			it.unsup("no method %s on %s", c.Method.Name(), recv.t)
		}
		args = append(args, recv.v)
		for _, a := range c.Args {
			args = append(args, it.get(fr, a))
		}
		return &FuncV{fn: m}, args, nil
	}
	fv := it.get(fr, c.Value).(*FuncV)
	if fv == nil {
		it.nilDeref()
	}
	for _, a := range c.Args {
		args = append(args, it.get(fr, a))
	}
	return fv, args, fv.env
}

func (it *Interp) invoke(fr *frame, fv *FuncV, args []Value, env []Value) Value {
	if fv.fn == nil {
		return it.builtin(fr, fv.name, args)
	}
	return it.call(fv.fn, args, env, fr)
}

func (it *Interp) doCall(fr *frame, c *ssa.CallCommon) Value {
	fv, args, env := it.resolveCall(fr, c)
	return it.invoke(fr, fv, args, env)
}

func (it *Interp) builtin(fr *frame, name string, args []Value) Value {
	switch name {
	case "len":
		switch x := args[0].(type) {
		case SliceV:
			return x.ln
		case *StrV:
			if s, ok := x.isConc(); ok {
				return int64(len(s))
			}
			return it.strLen(x)
		case *MapV:
			if x == nil {
				return int64(0)
			}
			return int64(len(x.keys))
		case *ChanV:
			if x == nil {
				return int64(0)
			}
			return int64(len(x.buf))
		}
	case "cap":
		if x, ok := args[0].(SliceV); ok {
			return int64(x.cp)
		}
		if x, ok := args[0].(*ChanV); ok {
			if x == nil {
				return int64(0)
			}
			return int64(x.cap)
		}
	case "append":
		return it.appendSlice(args[0].(SliceV), args[1])
	case "recover":
		// the frame running defers is the caller of the deferred function's frame
		for f := fr.caller; f != nil; f = f.caller {
			if f.inDefer {
				if f.pan != nil {
					p := f.pan
					f.pan = nil
					if p.val != nil {
						if iv, ok := p.val.(IfaceV); ok {
							return iv
						}
					}
					return IfaceV{t: types.Typ[types.String], v: conc(p.msg)}
				}
				break
			}
		}
		return IfaceV{}
	case "close":
		c := args[0].(*ChanV)
		it.visible("close", chanKey(c)) // a close is ordered with every other operation on the channel
		if c.closed {
			panic(&goPanic{msg: "close of closed channel"})
		}
		c.closed = true
		return nil
	case "min", "max":
		a, b := args[0], args[1]
		ca, oka := a.(int64)
		cb, okb := b.(int64)
		if oka && okb {
			if (name == "min") == (ca < cb) {
				return ca
			}
			return cb
		}
		ta, tb := it.iterm(a, 64), it.iterm(b, 64)
		cmp := "bvslt"
		if name == "max" {
			cmp = "bvsgt"
		}
		return &Sym{T: "(ite (" + cmp + " " + ta + " " + tb + ") " + ta + " " + tb + ")", S: "BV64"}
	case "ssa:wrapnilchk":
		if p, ok := args[0].(Ptr); ok && p.o == nil {
			it.nilDeref()
		}
		return args[0]
	case "delete":
		m := args[0].(*MapV)
		if m != nil {
			if i := it.mapFind(m, args[1]); i >= 0 {
				m.keys = append(m.keys[:i:i], m.keys[i+1:]...)
				m.vals = append(m.vals[:i:i], m.vals[i+1:]...)
			}
		}
		return nil
	}
	it.unsup("builtin %s(%T)", name, args[0])
	return nil
}

func (it *Interp) appendSlice(s SliceV, add Value) Value {
	var extra []Value
	switch a := add.(type) {
	case SliceV:
		n, ok := a.ln.(int64)
		if !ok {
			it.unsup("append of slice with symbolic length")
		}
		for i := 0; i < int(n); i++ {
			extra = append(extra, copyVal(a.arr.v.(*ArrayV).E[a.off+i]))
		}
	default:
		it.unsup("append %T", add)
	}
	n, ok := s.ln.(int64)
	if !ok {
		it.unsup("append to slice with symbolic length")
	}
	// spare capacity: the new elements are stored into the SAME backing array (two slices appended to from one
	// parent share those cells - Go's aliasing, which a data race or a stale value can hide behind)
	if s.arr != nil && len(extra) > 0 && int(n)+len(extra) <= s.cp {
		if av, isArr := s.arr.v.(*ArrayV); isArr && s.off+int(n)+len(extra) <= len(av.E) {
			for i, e := range extra {
				idx := s.off + int(n) + i
				it.raceAccess(Ptr{o: s.arr, path: []int{idx}}, true)
				av.E[idx] = e
			}
			return SliceV{arr: s.arr, off: s.off, ln: n + int64(len(extra)), cp: s.cp}
		}
	}
	var elems []Value
	for i := 0; i < int(n); i++ {
		elems = append(elems, copyVal(s.arr.v.(*ArrayV).E[s.off+i]))
	}
	elems = append(elems, extra...)
	if len(elems) == 0 {
		return s
	}
	return SliceV{arr: it.newObj(nil, &ArrayV{E: elems}), ln: int64(len(elems)), cp: len(elems)}
}

// ---------- ops ----------

func (it *Interp) unop(fr *frame, x *ssa.UnOp) Value {
	v := it.get(fr, x.X)
	switch x.Op {
	case token.MUL:
		return it.load(v.(Ptr))
	case token.ARROW:
		c, _ := v.(*ChanV)
		if c == nil {
			it.block("recv on nil chan", func() bool { return false }, nil)
		}
		return it.recv(c, x.X.Type().Underlying().(*types.Chan).Elem(), x.CommaOk)
	case token.NOT:
		switch b := v.(type) {
		case bool:
			return !b
		case *Sym:
			return &Sym{T: "(not " + b.T + ")", S: "Bool"}
		}
	case token.SUB:
		w, s, _ := intInfo(x.Type())
		switch i := v.(type) {
		case int64:
			return normInt(-i, w, s)
		case *Sym:
			return &Sym{T: "(bvneg " + i.T + ")", S: i.S}
		}
	}
	it.unsup("unop %s on %T", x.Op, v)
	return nil
}

func isNilVal(v Value) (bool, bool) {
	switch x := v.(type) {
	case nil:
		return true, true
	case Ptr:
		return x.o == nil, true
	case IfaceV:
		return x.t == nil, true
	case *MapV:
		return x == nil, true
	case *FuncV:
		return x == nil, true
	case *ChanV:
		return x == nil, true
	case SliceV:
		return x.arr == nil, true
	}
	return false, false
}

func (it *Interp) binop(op token.Token, a, b Value, t types.Type) Value {
	// strings
	if sa, ok := a.(*StrV); ok {
		sb := b.(*StrV)
		switch op {
		case token.ADD:
			return (&StrV{A: append(append([]Atom{}, sa.A...), sb.A...)}).norm()
		case token.EQL:
			return it.strEq(sa, sb)
		case token.NEQ:
			return it.not(it.strEq(sa, sb))
		}
		it.unsup("string op %s", op)
	}
	// bools
	if _, ok := a.(bool); ok || isBoolSym(a) {
		if _, ok2 := b.(bool); ok2 || isBoolSym(b) {
			switch op {
			case token.EQL:
				return it.boolEq(a, b)
			case token.NEQ:
				return it.not(it.boolEq(a, b))
			}
		}
	}
	// ints
	if w, signed, ok := intInfo(t); ok {
		ca, oka := a.(int64)
		cb, okb := b.(int64)
		if oka && okb {
			return concInt(op, ca, cb, w, signed)
		}
		ta, tb := it.iterm(a, w), it.iterm(b, w)
		bv := fmt.Sprintf("BV%d", w)
		cmp := func(s, u string) Value {
			o := u
			if signed {
				o = s
			}
			return &Sym{T: "(" + o + " " + ta + " " + tb + ")", S: "Bool"}
		}
		switch op {
		case token.ADD:
			return &Sym{T: "(bvadd " + ta + " " + tb + ")", S: bv}
		case token.SUB:
			return &Sym{T: "(bvsub " + ta + " " + tb + ")", S: bv}
		case token.MUL:
			return &Sym{T: "(bvmul " + ta + " " + tb + ")", S: bv}
		case token.AND:
			return &Sym{T: "(bvand " + ta + " " + tb + ")", S: bv}
		case token.OR:
			return &Sym{T: "(bvor " + ta + " " + tb + ")", S: bv}
		case token.XOR:
			return &Sym{T: "(bvxor " + ta + " " + tb + ")", S: bv}
		case token.SHL, token.SHR:
			// shift count may have another width: b was rendered at width w already (iterm uses w for concretes)
			if sb, ok := b.(*Sym); ok && sb.S != bv {
				bw := bvWidth(sb.S)
				if bw < w {
					tb = fmt.Sprintf("((_ zero_extend %d) %s)", w-bw, sb.T)
				} else {
					tb = fmt.Sprintf("((_ extract %d 0) %s)", w-1, sb.T)
				}
			}
			o := "bvshl"
			if op == token.SHR {
				o = "bvlshr"
				if signed {
					o = "bvashr"
				}
			}
			return &Sym{T: "(" + o + " " + ta + " " + tb + ")", S: bv}
		case token.AND_NOT:
			return &Sym{T: "(bvand " + ta + " (bvnot " + tb + "))", S: bv}
		case token.EQL:
			return &Sym{T: "(= " + ta + " " + tb + ")", S: "Bool"}
		case token.NEQ:
			return &Sym{T: "(not (= " + ta + " " + tb + "))", S: "Bool"}
		case token.LSS:
			return cmp("bvslt", "bvult")
		case token.LEQ:
			return cmp("bvsle", "bvule")
		case token.GTR:
			return cmp("bvsgt", "bvugt")
		case token.GEQ:
			return cmp("bvsge", "bvuge")
		}
		it.unsup("symbolic int op %s", op)
	}
	// nil-able / reference comparisons
	if op == token.EQL || op == token.NEQ {
		eq := it.refEq(a, b)
		if op == token.NEQ {
			return !eq
		}
		return eq
	}
	it.unsup("binop %s on %T,%T", op, a, b)
	return nil
}

func isBoolSym(v Value) bool { s, ok := v.(*Sym); return ok && s.S == "Bool" }

func (it *Interp) not(v Value) Value {
	switch b := v.(type) {
	case bool:
		return !b
	case *Sym:
		return &Sym{T: "(not " + b.T + ")", S: "Bool"}
	}
	panic("not")
}

func (it *Interp) boolEq(a, b Value) Value {
	ca, oka := a.(bool)
	cb, okb := b.(bool)
	if oka && okb {
		return ca == cb
	}
	t := func(v Value) string {
		if c, ok := v.(bool); ok {
			return fmt.Sprint(c)
		}
		return v.(*Sym).T
	}
	return &Sym{T: "(= " + t(a) + " " + t(b) + ")", S: "Bool"}
}

func (it *Interp) refEq(a, b Value) bool {
	na, oka := isNilVal(a)
	nb, okb := isNilVal(b)
	if oka && okb && (na || nb) {
		return na && nb
	}
	switch x := a.(type) {
	case Ptr:
		y := b.(Ptr)
		if x.o != y.o || len(x.path) != len(y.path) {
			return false
		}
		for i := range x.path {
			if x.path[i] != y.path[i] {
				return false
			}
		}
		return true
	case IfaceV:
		y := b.(IfaceV)
		if !types.Identical(x.t, y.t) {
			return false
		}
		switch xv := x.v.(type) {
		case Ptr:
			return it.refEq(xv, y.v)
		case *StrV:
			r := it.strEq(xv, y.v.(*StrV))
			if c, ok := r.(bool); ok {
				return c
			}
			return it.branch(r, "ifaceStrEq")
		case int64:
			return xv == y.v
		case bool:
			return xv == y.v
		case *StructV:
			yv := y.v.(*StructV)
			for i := range xv.F {
				if !it.refEq(IfaceV{t: types.Typ[types.Int], v: xv.F[i]}, IfaceV{t: types.Typ[types.Int], v: yv.F[i]}) {
					return false
				}
			}
			return true
		}
	case *MapV:
		return x == b.(*MapV)
	case *FuncV:
		return x == b.(*FuncV)
	}
	it.unsup("refEq %T %T", a, b)
	return false
}

func concInt(op token.Token, a, b int64, w int, signed bool) Value {
	ua, ub := uint64(a), uint64(b)
	if w < 64 && !signed {
		m := uint64(1)<<uint(w) - 1
		ua, ub = ua&m, ub&m
	}
	lt := func() bool {
		if signed {
			return a < b
		}
		return ua < ub
	}
	switch op {
	case token.ADD:
		return normInt(a+b, w, signed)
	case token.SUB:
		return normInt(a-b, w, signed)
	case token.MUL:
		return normInt(a*b, w, signed)
	case token.QUO:
		if b == 0 {
			panic(&goPanic{msg: "integer divide by zero"})
		}
		if signed {
			return normInt(a/b, w, signed)
		}
		return normInt(int64(ua/ub), w, signed)
	case token.REM:
		if b == 0 {
			panic(&goPanic{msg: "integer divide by zero"})
		}
		if signed {
			return normInt(a%b, w, signed)
		}
		return normInt(int64(ua%ub), w, signed)
	case token.AND:
		return normInt(a&b, w, signed)
	case token.OR:
		return normInt(a|b, w, signed)
	case token.XOR:
		return normInt(a^b, w, signed)
	case token.AND_NOT:
		return normInt(a&^b, w, signed)
	case token.SHL:
		return normInt(a<<ub, w, signed)
	case token.SHR:
		if signed {
			return normInt(a>>ub, w, signed)
		}
		return normInt(int64(ua>>ub), w, signed)
	case token.EQL:
		return a == b
	case token.NEQ:
		return a != b
	case token.LSS:
		return lt()
	case token.LEQ:
		return lt() || a == b
	case token.GTR:
		return !lt() && a != b
	case token.GEQ:
		return !lt()
	}
	panic("concInt " + op.String())
}

func (it *Interp) convert(v Value, from, to types.Type) Value {
	fw, fs, fok := intInfo(from)
	tw, ts, tok := intInfo(to)
	if fok && tok {
		switch x := v.(type) {
		case int64:
			return normInt(x, tw, ts)
		case *Sym:
			switch {
			case tw == fw:
				return x
			case tw < fw:
				return &Sym{T: fmt.Sprintf("((_ extract %d 0) %s)", tw-1, x.T), S: fmt.Sprintf("BV%d", tw)}
			case fs:
				return &Sym{T: fmt.Sprintf("((_ sign_extend %d) %s)", tw-fw, x.T), S: fmt.Sprintf("BV%d", tw)}
			default:
				return &Sym{T: fmt.Sprintf("((_ zero_extend %d) %s)", tw-fw, x.T), S: fmt.Sprintf("BV%d", tw)}
			}
		}
	}
	if _, ok := v.(*StrV); ok {
		if b, ok := to.Underlying().(*types.Basic); ok && b.Info()&types.IsString != 0 {
			return v
		}
	}
	if c, ok := v.(int64); ok && fok { // string(rune) / string(byte) of a concrete value
		if b, ok := to.Underlying().(*types.Basic); ok && b.Info()&types.IsString != 0 {
			return conc(string(rune(c)))
		}
	}
	if types.Identical(from.Underlying(), to.Underlying()) {
		return v
	}
	if isUnsafePtr(from) || isUnsafePtr(to) { // *T <-> unsafe.Pointer: addresses are concrete objects, the view is unchanged
		if _, ok := v.(Ptr); ok {
			return v
		}
	}
	if sv, ok := v.(*StrV); ok {
		if sl, ok := to.Underlying().(*types.Slice); ok {
			if b, ok := sl.Elem().Underlying().(*types.Basic); ok && b.Kind() == types.Uint8 {
				var ln Value
				if c, ok := sv.isConc(); ok {
					ln = int64(len(c))
				} else {
					ln = it.strLen(sv)
				}
				return SliceV{arr: it.newObj(nil, &StrBytes{s: sv}), ln: ln, cp: 1 << 30}
			}
		}
	}
	if sl, ok := v.(SliceV); ok {
		if b, ok := to.Underlying().(*types.Basic); ok && b.Info()&types.IsString != 0 {
			if sl.arr == nil {
				return conc("")
			}
			switch a := sl.arr.v.(type) {
			case *ByteBuf:
				// the slice must cover exactly the bytes currently held
				if it.sol.check("(not (= "+it.iterm(sl.ln, 64)+" "+it.iterm(a.n, 64)+"))") != "unsat" {
					it.unsup("string(buf[:n]) with n not provably the filled length")
				}
				return a.s
			case *StrBytes:
				return a.s
			case *ArrayV:
				n, ok := sl.ln.(int64)
				if !ok {
					it.unsup("string(bytes) with symbolic length")
				}
				bs := make([]byte, n)
				for i := range bs {
					c, ok := a.E[sl.off+i].(int64)
					if !ok {
						it.unsup("string(bytes) with symbolic bytes")
					}
					bs[i] = byte(c)
				}
				return conc(string(bs))
			}
		}
	}
	it.unsup("convert %s -> %s (%T)", from, to, v)
	return nil
}

func isUnsafePtr(t types.Type) bool {
	b, ok := t.Underlying().(*types.Basic)
	return ok && b.Kind() == types.UnsafePointer
}

func (it *Interp) lenLE(i int64, ln Value) Value {
	switch l := ln.(type) {
	case int64:
		return i < l
	case *Sym:
		return &Sym{T: "(bvslt " + bvLit(i, 64) + " " + l.T + ")", S: "Bool"}
	}
	panic("lenLE")
}

// concIndex: a symbolic index into something of small concrete extent is case-split over its feasible values
func (it *Interp) concIndex(idx Value, extent int) int64 {
	if i, ok := idx.(int64); ok {
		return i
	}
	sym, ok := idx.(*Sym)
	if !ok || extent <= 0 || extent > 64 {
		it.unsup("symbolic index")
	}
	// values 0..extent-1, and "out of range" as the last alternative
	k := it.ex.decide("index", func() []int {
		var a []int
		for v := 0; v <= extent; v++ {
			var t string
			if v < extent {
				t = "(= " + sym.T + " " + bvLit(int64(v), 64) + ")"
			} else {
				t = "(or (bvslt " + sym.T + " " + bvLit(0, 64) + ") (bvsge " + sym.T + " " + bvLit(int64(extent), 64) + "))"
			}
			switch it.sol.check(t) {
			case "sat":
				a = append(a, v)
			case "unsat":
			default:
				it.inconc = append(it.inconc, "unknown at index")
				a = append(a, v)
			}
		}
		return a
	})
	if k == extent {
		it.assume("(or (bvslt " + sym.T + " " + bvLit(0, 64) + ") (bvsge " + sym.T + " " + bvLit(int64(extent), 64) + "))")
		panic(&goPanic{msg: "index out of range"})
	}
	it.assume("(= " + sym.T + " " + bvLit(int64(k), 64) + ")")
	return int64(k)
}

func (it *Interp) indexAddr(x, idx Value) Value {
	i, ok := idx.(int64)
	if !ok {
		switch c := x.(type) {
		case SliceV:
			if c.arr != nil {
				if av, isArr := c.arr.v.(*ArrayV); isArr {
					i = it.concIndex(idx, len(av.E)-c.off)
					ok = true
				}
			}
		}
		if !ok {
			it.unsup("symbolic index")
		}
	}
	switch c := x.(type) {
	case SliceV:
		if i < 0 || !it.branch(it.lenLE(i, c.ln), "bounds") {
			panic(&goPanic{msg: fmt.Sprintf("index out of range [%d]", i)})
		}
		return Ptr{o: c.arr, path: []int{c.off + int(i)}}
	case Ptr: // *array
		if c.o == nil {
			it.nilDeref()
		}
		return c.sub(int(i))
	}
	it.unsup("indexAddr %T", x)
	return nil
}

func (it *Interp) index(x, idx Value) Value {
	i, ok := idx.(int64)
	if !ok {
		it.unsup("symbolic index")
	}
	switch c := x.(type) {
	case *ArrayV:
		return copyVal(c.E[i])
	case *StrV:
		if s, ok := c.isConc(); ok {
			if int(i) >= len(s) {
				panic(&goPanic{msg: "string index out of range"})
			}
			return int64(s[i])
		}
		return it.strByte(c, int(i))
	}
	it.unsup("index %T", x)
	return nil
}

func (it *Interp) slice(fr *frame, x *ssa.Slice) Value {
	base := it.get(fr, x.X)
	lo, hi := int64(0), int64(-1)
	if x.Low != nil {
		lo = it.get(fr, x.Low).(int64)
	}
	var hiV Value
	if x.High != nil {
		hiV = it.get(fr, x.High)
		if h, ok := hiV.(int64); ok {
			hi = h
		}
	}
	switch b := base.(type) {
	case *StrV: // s[lo:hi] of a string: exact when the bounds fall inside a leading literal, or the string is concrete
		if cs, ok := b.isConc(); ok {
			if x.High == nil {
				hi = int64(len(cs))
			}
			if hi < 0 {
				it.unsup("string slice with symbolic bound")
			}
			if lo < 0 || hi > int64(len(cs)) || lo > hi {
				panic(&goPanic{msg: "slice bounds out of range"})
			}
			return conc(cs[lo:hi])
		}
		n := b.norm()
		if len(n.A) > 0 && n.A[0].Sym == "" && n.A[0].Line == nil {
			l0 := int64(len(n.A[0].Lit))
			if x.High != nil && hi >= 0 && hi <= l0 && lo <= hi {
				return conc(n.A[0].Lit[lo:hi])
			}
			if x.High == nil && lo <= l0 {
				out := &StrV{A: append([]Atom{{Lit: n.A[0].Lit[lo:]}}, n.A[1:]...)}
				return out.norm()
			}
		}
		it.unsup("slice of a symbolic string")
	case Ptr: // *array -> slice
		if _, isBuf := it.loadRaw(b).(*ByteBuf); isBuf {
			if x.High == nil {
				return SliceV{arr: b.o, off: 0, ln: int64(1 << 20), cp: 1 << 20, } // data[:] of a buffer: length irrelevant to the models
			}
			return SliceV{arr: b.o, off: 0, ln: hiV, cp: 1 << 20}
		}
		arr := it.loadRaw(b).(*ArrayV)
		n := int64(len(arr.E))
		if x.High == nil {
			hi = n
		}
		if len(b.path) != 0 {
			it.unsup("slice of nested array")
		}
		if hi >= 0 {
			return SliceV{arr: b.o, off: int(lo), ln: hi - lo, cp: int(n - lo)}
		}
		return SliceV{arr: b.o, off: int(lo), ln: hiV, cp: int(n - lo)}
	case SliceV:
		if x.High == nil {
			if l, ok := b.ln.(int64); ok {
				return SliceV{arr: b.arr, off: b.off + int(lo), ln: l - lo, cp: b.cp - int(lo)}
			}
			it.unsup("reslice of symbolic-length slice")
		}
		if hi >= 0 {
			return SliceV{arr: b.arr, off: b.off + int(lo), ln: hi - lo, cp: b.cp - int(lo)}
		}
		if hs, ok := hiV.(*Sym); ok && lo == 0 {
			// bounds: 0 <= hi <= cap
			okc := &Sym{T: "(and (bvsge " + hs.T + " (_ bv0 64)) (bvsle " + hs.T + " " + bvLit(int64(b.cp), 64) + "))", S: "Bool"}
			if !it.branch(okc, "slicebounds") {
				panic(&goPanic{msg: "slice bounds out of range"})
			}
			return SliceV{arr: b.arr, off: b.off, ln: hs, cp: b.cp}
		}
	}
	it.unsup("slice %T", base)
	return nil
}

func (it *Interp) loadRaw(p Ptr) Value {
	v := p.o.v
	for _, i := range p.path {
		switch c := v.(type) {
		case *StructV:
			v = c.F[i]
		case *ArrayV:
			v = c.E[i]
		}
	}
	return v
}

func (it *Interp) typeAssert(x *ssa.TypeAssert, iv IfaceV) Value {
	ok := false
	if iv.t != nil {
		if it2, isI := x.AssertedType.Underlying().(*types.Interface); isI {
			ok = types.Implements(iv.t, it2)
		} else {
			ok = types.Identical(iv.t, x.AssertedType)
		}
	}
	var res Value
	if _, isI := x.AssertedType.Underlying().(*types.Interface); isI {
		if ok {
			res = iv
		} else {
			res = IfaceV{}
		}
	} else if ok {
		res = iv.v
	} else {
		res = it.zero(x.AssertedType)
	}
	if x.CommaOk {
		return TupleV{res, ok}
	}
	if !ok {
		panic(&goPanic{msg: fmt.Sprintf("interface conversion: interface is %v, not %v", iv.t, x.AssertedType)})
	}
	return res
}

// ---------- maps ----------

func (it *Interp) keyEq(a, b Value, kt types.Type) Value {
	if w, _, ok := intInfo(kt); ok {
		ca, oka := a.(int64)
		cb, okb := b.(int64)
		if oka && okb {
			return ca == cb
		}
		return &Sym{T: "(= " + it.iterm(a, w) + " " + it.iterm(b, w) + ")", S: "Bool"}
	}
	if sa, ok := a.(*StrV); ok {
		return it.strEq(sa, b.(*StrV))
	}
	return it.refEq(a, b)
}

func (it *Interp) mapFind(m *MapV, k Value) int {
	for i, ek := range m.keys {
		if it.branch(it.keyEq(k, ek, m.kt), "mapkey") {
			return i
		}
	}
	return -1
}

func (it *Interp) lookup(x, k Value, commaOk bool, t types.Type) Value {
	m, ok := x.(*MapV)
	if !ok {
		it.unsup("lookup on %T", x)
	}
	var vt types.Type
	if commaOk {
		vt = t.(*types.Tuple).At(0).Type()
	} else {
		vt = t
	}
	var v Value
	found := false
	if m != nil {
		if i := it.mapFind(m, k); i >= 0 {
			v, found = copyVal(m.vals[i]), true
		}
	}
	if !found {
		v = it.zero(vt)
	}
	if commaOk {
		return TupleV{v, found}
	}
	return v
}

func (it *Interp) mapUpdate(x, k, v Value) {
	m := x.(*MapV)
	if m == nil {
		panic(&goPanic{msg: "assignment to entry in nil map"})
	}
	if i := it.mapFind(m, k); i >= 0 {
		m.vals[i] = copyVal(v)
		return
	}
	m.keys = append(m.keys, k)
	m.vals = append(m.vals, copyVal(v))
}

func (it *Interp) mkRange(x Value) Value {
	switch m := x.(type) {
	case *MapV:
		itv := &IterV{m: m}
		if m != nil {
			itv.keys = append(itv.keys, m.keys...) // the entries present when the loop starts
		}
		return itv
	}
	it.unsup("range over %T", x)
	return nil
}

// identity of a stored key value (the map keeps the very Value it was given)
func keyIdent(v Value) string {
	switch x := v.(type) {
	case int64:
		return fmt.Sprintf("i%d", x)
	case bool:
		return fmt.Sprintf("b%v", x)
	case *StrV:
		return fmt.Sprintf("s%p", x)
	case *Sym:
		return fmt.Sprintf("y%p", x)
	case Ptr:
		if x.o == nil {
			return "pnil"
		}
		return fmt.Sprintf("p%d%v", x.o.id, x.path)
	case IfaceV:
		return fmt.Sprintf("f%v:%s", x.t, keyIdent(x.v))
	case *FuncV:
		return fmt.Sprintf("fn%p", x)
	case *ChanV:
		return fmt.Sprintf("c%p", x)
	}
	return fmt.Sprintf("?%T%v", v, v)
}

// next: Go permits deleting entries during a range; a deleted entry that was not reached yet is not produced.
func (it *Interp) next(iv *IterV, x *ssa.Next) Value {
	tt := x.Type().(*types.Tuple)
	var live []int // positions in iv.keys whose entry still exists
	var where []int
	for i, k := range iv.keys {
		id := keyIdent(k)
		for j, mk := range iv.m.keys {
			if keyIdent(mk) == id {
				live = append(live, i)
				where = append(where, j)
				break
			}
		}
	}
	if len(live) == 0 {
		iv.keys = nil
		return TupleV{false, it.zeroOrNil(tt.At(1).Type()), it.zeroOrNil(tt.At(2).Type())}
	}
	k := 0
	if !it.cfg.NoMapPerm && len(live) > 1 && !it.isModelFn(x.Parent()) {
		// Go's iteration order is unspecified: explore every order - for go-plugin's own loops
		k = it.choose(len(live), "maporder")
	}
	key, idx := iv.keys[live[k]], where[k]
	var rest []Value
	for n, i := range live {
		if n != k {
			rest = append(rest, iv.keys[i])
		}
	}
	iv.keys = rest
	return TupleV{true, key, copyVal(iv.m.vals[idx])}
}

func (it *Interp) zeroOrNil(t types.Type) Value {
	if b, ok := t.(*types.Basic); ok && b.Kind() == types.Invalid {
		return nil
	}
	return it.zero(t)
}

type rec struct {
	k string
	v Value
}

// witness: a model of the current path condition, projected on everything needed to rebuild the inputs
func (it *Interp) witness() map[string]interface{} { return it.witnessUnder("") }

func (it *Interp) witnessUnder(under string) map[string]interface{} {
	var terms []string
	terms = append(terms, it.syms...)
	var strSyms []string
	for _, sname := range it.syms {
		if it.symSort[sname] == "Str" {
			strSyms = append(strSyms, sname)
		}
	}
	var ufs []string
	for d := range it.sol.decl {
		if strings.HasPrefix(d, "uf_") && !it.ufIsStr[d] {
			ufs = append(ufs, d)
		}
	}
	sort.Strings(ufs)
	var lits []string
	for l := range it.lits {
		lits = append(lits, l)
	}
	sort.Strings(lits)
	for _, f := range strSyms {
		terms = append(terms, "(len "+f+")", "(atoi_ok "+f+")", "(atoi_val "+f+")")
		for _, l := range lits {
			terms = append(terms, "(= "+f+" "+it.lits[l]+")")
		}
		for _, d := range ufs {
			if it.catSeen["("+d+" "+f+")"] { // only predicates the path actually asked about
				terms = append(terms, "("+d+" "+f+")")
			}
		}
	}
	for _, r := range it.records {
		if sv, ok := r.v.(*Sym); ok {
			terms = append(terms, sv.T)
		}
	}
	// prefer short strings: try to bound every len by 64, fall back to unconstrained
	extra := under
	if len(strSyms) > 0 {
		cs := []string{}
		if under != "" {
			cs = append(cs, under)
		}
		for _, f := range strSyms {
			cs = append(cs, "(bvule (len "+f+") (_ bv64 64))")
		}
		short := "(and " + strings.Join(cs, " ") + ")"
		if it.sol.check(short) == "sat" {
			extra = short
		}
	}
	m := it.sol.model(extra, terms)
	out := map[string]interface{}{}
	val := func(t string) string {
		v := m[t]
		v = strings.TrimSuffix(strings.TrimPrefix(v, "(("+t+" "), "))")
		return v
	}
	fields := map[string]map[string]interface{}{}
	for _, f := range strSyms {
		fm := map[string]interface{}{"len": val("(len " + f + ")"), "atoi_ok": val("(atoi_ok " + f + ")"), "atoi_val": val("(atoi_val " + f + ")")}
		for _, l := range lits {
			if val("(= "+f+" "+it.lits[l]+")") == "true" {
				fm["lit"] = l
			}
		}
		for _, d := range ufs {
			if it.catSeen["("+d+" "+f+")"] {
				fm[d] = val("(" + d + " " + f + ")")
			}
		}
		fields[f] = fm
	}
	if len(fields) > 0 {
		out["strings"] = fields
	}
	for _, sname := range it.syms {
		if it.symSort[sname] != "Str" {
			out[sname] = val(sname)
		}
	}
	recs := map[string]interface{}{}
	for _, r := range it.records {
		switch x := r.v.(type) {
		case *Sym:
			recs[r.k] = val(x.T)
		case *StrV:
			var parts []interface{}
			for _, a := range x.norm().A {
				if a.Line != nil {
					parts = append(parts, map[string]string{"line": a.Line.Name})
				} else if a.Sym != "" {
					parts = append(parts, map[string]string{"sym": a.Sym})
				} else {
					parts = append(parts, map[string]string{"lit": a.Lit})
				}
			}
			recs[r.k] = parts
		default:
			recs[r.k] = fmt.Sprint(x)
		}
	}
	if len(recs) > 0 {
		out["rec"] = recs
	}
	if c := it.concretize(out); len(c) > 0 {
		out["concrete"] = c
	}
	return out
}

var stackPrinted bool
var debugStack = os.Getenv("GPV_STACK") != ""
