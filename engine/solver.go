package main

import (
	"bufio"
	"fmt"
	"io"
	"os/exec"
	"strings"
	"time"
)

type Solver struct {
	cmd   *exec.Cmd
	in    io.WriteCloser
	out   *bufio.Reader
	decl  map[string]bool
	nq    int
	dur   time.Duration
	log   []string
	trace bool
	keep  bool     // keep every line since the last reset (to re-run a query on other solvers)
	since []string
}

const prelude = `
(declare-sort Str 0)
(declare-fun len (Str) (_ BitVec 64))
(declare-fun atoi_ok (Str) Bool)
(declare-fun atoi_val (Str) (_ BitVec 64))
(declare-fun itoa ((_ BitVec 64)) Str)
(declare-fun cat (Str Str) Str)
(declare-const lit_empty Str)
(assert (= (len lit_empty) (_ bv0 64)))
`

func newSolver() *Solver {
	cmd := exec.Command("z3", "-in")
	in, _ := cmd.StdinPipe()
	out, _ := cmd.StdoutPipe()
	if err := cmd.Start(); err != nil {
		panic(err)
	}
	s := &Solver{cmd: cmd, in: in, out: bufio.NewReader(out)}
	s.reset()
	return s
}


func (s *Solver) send(l string) {
	if s.trace {
		s.log = append(s.log, l)
	}
	if s.keep {
		s.since = append(s.since, l)
	}
	io.WriteString(s.in, l+"\n")
}

func (s *Solver) reset() {
	s.since = s.since[:0]
	s.send("(reset)")
	s.send("(set-option :timeout 10000)")
	s.send(prelude)
	s.decl = map[string]bool{}
}

func (s *Solver) declare(name, sort string) {
	if s.decl[name] {
		return
	}
	s.decl[name] = true
	s.send(fmt.Sprintf("(declare-const %s %s)", name, smtSort(sort)))
}

func smtSort(s string) string {
	switch s {
	case "Bool", "Str":
		return s
	}
	return "(_ BitVec " + s[2:] + ")"
}

func (s *Solver) assert(t string) { s.send("(assert " + t + ")") }

func (s *Solver) readLine() string {
	l, err := s.out.ReadString('\n')
	if err != nil {
		panic("solver died: " + err.Error())
	}
	return strings.TrimSpace(l)
}

// check returns "sat", "unsat" or "unknown" for PC ∧ extra.
func (s *Solver) check(extra string) string {
	t0 := time.Now()
	s.nq++
	s.send("(push)")
	if extra != "" {
		s.assert(extra)
	}
	s.send("(check-sat)")
	r := s.readLine()
	s.send("(pop)")
	s.dur += time.Since(t0)
	if strings.HasPrefix(r, "(error") {
		panic("solver error: " + r)
	}
	return r
}

// model evaluates terms under PC ∧ extra (must be sat).
func (s *Solver) model(extra string, terms []string) map[string]string {
	s.send("(push)")
	if extra != "" {
		s.assert(extra)
	}
	s.send("(check-sat)")
	r := s.readLine()
	res := map[string]string{}
	if r == "sat" {
		for _, t := range terms {
			s.send("(get-value (" + t + "))")
			l := s.readLine()
			for strings.Count(l, "(") != strings.Count(l, ")") {
				l += " " + s.readLine()
			}
			res[t] = l
		}
	}
	s.send("(pop)")
	return res
}

func (s *Solver) close() { s.in.Close(); s.cmd.Wait() }

// script returns a self-contained SMT-LIB script asking the query `extra` in the current context
func (s *Solver) script(extra string) string {
	var b strings.Builder
	for _, l := range s.since {
		if l == "(reset)" || strings.HasPrefix(l, "(get-value") {
			continue
		}
		b.WriteString(l)
		b.WriteString("\n")
	}
	b.WriteString("(push)\n(assert " + extra + ")\n(check-sat)\n(pop)\n")
	return b.String()
}
