package main

import (
	"fmt"
	"go/types"
	"strconv"
	"strings"
)

// error objects: *errors.errorString with side table for wrapping
func (it *Interp) mkErrorW(msg *StrV, wraps []Value) Value {
	e := it.mkError(msg)
	if len(wraps) > 0 {
		it.wraps[e.(IfaceV).v.(Ptr).o.id] = wraps
	}
	return e
}

func (it *Interp) errIs(e, target Value) bool {
	ie, ok := e.(IfaceV)
	if !ok || ie.t == nil {
		return false
	}
	if it.refEq(e, target) {
		return true
	}
	if p, ok := ie.v.(Ptr); ok && p.o != nil {
		for _, w := range it.wraps[p.o.id] {
			if it.errIs(w, target) {
				return true
			}
		}
	}
	// an error type with an Unwrap() error method (os.PathError, net.OpError, ...): follow it
	if sel := it.prog.MethodSets.MethodSet(ie.t).Lookup(nil, "Unwrap"); sel != nil {
		if fn := it.prog.MethodValue(sel); fn != nil && fn.Signature.Params().Len() == 0 && fn.Signature.Results().Len() == 1 && len(fn.Blocks) > 0 {
			if inner, ok := it.call(fn, []Value{ie.v}, nil, nil).(IfaceV); ok && inner.t != nil {
				return it.errIs(inner, target)
			}
		}
	}
	return false
}

// Sprintf over structured strings
func (it *Interp) sprintf(format string, args []Value) (*StrV, []Value) {
	out := &StrV{}
	var wraps []Value
	ai := 0
	for i := 0; i < len(format); i++ {
		ch := format[i]
		if ch != '%' {
			out.A = append(out.A, Atom{Lit: string(ch)})
			continue
		}
		i++
		if i >= len(format) {
			break
		}
		for i < len(format) && strings.ContainsRune("+-# 0123456789.", rune(format[i])) {
			i++
		}
		if i >= len(format) {
			break
		}
		v := format[i]
		if v == '%' {
			out.A = append(out.A, Atom{Lit: "%"})
			continue
		}
		if ai >= len(args) {
			out.A = append(out.A, Atom{Lit: "%!" + string(v) + "(MISSING)"})
			continue
		}
		arg := args[ai]
		ai++
		if iv, ok := arg.(IfaceV); ok {
			if v == 'w' {
				wraps = append(wraps, iv)
			}
			arg = iv.v
	if sl, ok := arg.(SliceV); ok && sl.arr != nil { // []byte under %s prints as a string
				if sb, ok := sl.arr.v.(*StrBytes); ok {
					arg = sb.s
				} else if av, ok := sl.arr.v.(*ArrayV); ok {
					if n, ok := sl.ln.(int64); ok {
						bs := make([]byte, 0, n)
						okAll := true
						for i := 0; i < int(n); i++ {
							c, ok := av.E[sl.off+i].(int64)
							if !ok {
								okAll = false
								break
							}
							bs = append(bs, byte(c))
						}
						if okAll {
							arg = conc(string(bs))
						}
					}
				}
			}
			if iv.t != nil && (v == 'w' || v == 's' || v == 'v') {
				// error or Stringer: opaque text
				if _, isStr := arg.(*StrV); !isStr {
					_, isBool := arg.(bool)
					if _, isInt := arg.(int64); !isInt && !isBool {
						if _, isSym := arg.(*Sym); !isSym {
							out.A = append(out.A, Atom{Lit: "<" + types.TypeString(iv.t, nil) + ">"})
							continue
						}
					}
				}
			}
		}
		switch x := arg.(type) {
		case *StrV:
			if v == 'q' {
				out.A = append(out.A, Atom{Lit: "\""})
				out.A = append(out.A, x.A...)
				out.A = append(out.A, Atom{Lit: "\""})
			} else {
				out.A = append(out.A, x.A...)
			}
		case int64:
			out.A = append(out.A, Atom{Lit: strconv.FormatInt(x, 10)})
		case *Sym:
			if x.S == "Bool" {
				out.A = append(out.A, Atom{Lit: "<bool>"})
			} else {
				t := x.T
				if x.S != "BV64" {
					t = "((_ zero_extend " + fmt.Sprint(64-bvWidth(x.S)) + ") " + t + ")"
				}
				tt := "(itoa " + t + ")"
				it.itoaFacts(tt, t)
				out.A = append(out.A, Atom{Sym: tt, NoSep: "*digits"})
			}
		case bool:
			out.A = append(out.A, Atom{Lit: fmt.Sprint(x)})
		default:
			out.A = append(out.A, Atom{Lit: fmt.Sprintf("<%T>", arg)})
		}
	}
	return out.norm(), wraps
}

func bvWidth(s string) int { n, _ := strconv.Atoi(s[2:]); return n }

func (it *Interp) itoaFacts(tt, x string) {
	if it.catSeen[tt] {
		return
	}
	it.catSeen[tt] = true
	it.sol.assert("(atoi_ok " + tt + ")")
	it.sol.assert("(= (atoi_val " + tt + ") " + x + ")")
	it.sol.assert("(bvuge (len " + tt + ") (_ bv1 64))")
	it.sol.assert("(bvule (len " + tt + ") (_ bv20 64))")
}

func (it *Interp) varargs(v Value) []Value {
	s, ok := v.(SliceV)
	if !ok || s.arr == nil {
		return nil
	}
	n := s.ln.(int64)
	var out []Value
	for i := 0; i < int(n); i++ {
		out = append(out, s.arr.v.(*ArrayV).E[s.off+i])
	}
	return out
}

var parseBoolLits = map[string]bool{"1": true, "t": true, "T": true, "TRUE": true, "true": true, "True": true,
	"0": false, "f": false, "F": false, "FALSE": false, "false": false, "False": false}

func init() {
	more := map[string]func(it *Interp, args []Value) Value{
		"fmt.Sprintf": func(it *Interp, a []Value) Value {
			f, _ := a[0].(*StrV).isConc()
			s, _ := it.sprintf(f, it.varargs(a[1]))
			return s
		},
		"fmt.Errorf": func(it *Interp, a []Value) Value {
			f, _ := a[0].(*StrV).isConc()
			s, w := it.sprintf(f, it.varargs(a[1]))
			return it.mkErrorW(s, w)
		},
		"fmt.Printf":  func(it *Interp, a []Value) Value { return TupleV{int64(0), IfaceV{}} },
		"fmt.Println": func(it *Interp, a []Value) Value { return TupleV{int64(0), IfaceV{}} },
		"fmt.Print":   func(it *Interp, a []Value) Value { return TupleV{int64(0), IfaceV{}} },
		"fmt.Fprintln": func(it *Interp, a []Value) Value { return TupleV{int64(0), IfaceV{}} },
		"fmt.Fprint":   func(it *Interp, a []Value) Value { return TupleV{int64(0), IfaceV{}} },
		"fmt.Sprintln": func(it *Interp, a []Value) Value { // operands separated by spaces, newline appended
			args := it.varargs(a[0])
			f := ""
			for i := range args {
				if i > 0 {
					f += " "
				}
				f += "%v"
			}
			s, _ := it.sprintf(f+"\n", args)
			return s
		},
		"fmt.Sprint": func(it *Interp, a []Value) Value { // a space is added between operands when neither is a string
			args := it.varargs(a[0])
			f := ""
			for i := range args {
				if i > 0 {
					_, s1 := args[i-1].(IfaceV).v.(*StrV)
					_, s2 := args[i].(IfaceV).v.(*StrV)
					if !s1 && !s2 {
						f += " "
					}
				}
				f += "%v"
			}
			s, _ := it.sprintf(f, args)
			return s
		},
		"errors.Is": func(it *Interp, a []Value) Value { return it.errIs(a[0], a[1]) },
		"path/filepath.Base": func(it *Interp, a []Value) Value { return a[0] },
		"strings.TrimSpace": func(it *Interp, a []Value) Value {
			s := a[0].(*StrV).norm()
			if c, ok := s.isConc(); ok {
				return conc(strings.TrimSpace(c))
			}
			if len(s.A) == 1 && s.A[0].Line == nil {
				return it.ufStr("trim", s, func(l string) string { return strings.TrimSpace(l) })
			}
			if n := len(s.A); n > 1 {
				endOK := func(a Atom) bool { return a.Line == nil && (a.Sym == "" || a.NoSep == "*digits") }
				if endOK(s.A[0]) && endOK(s.A[n-1]) {
					out := &StrV{A: append([]Atom{}, s.A...)}
					if out.A[0].Sym == "" {
						out.A[0].Lit = strings.TrimLeft(out.A[0].Lit, " \t\n\v\f\r")
						if out.A[0].Lit == "" {
							it.unsup("TrimSpace: leading literal is all whitespace")
						}
					}
					if out.A[n-1].Sym == "" {
						out.A[n-1].Lit = strings.TrimRight(out.A[n-1].Lit, " \t\n\v\f\r")
						if out.A[n-1].Lit == "" {
							it.unsup("TrimSpace: trailing literal is all whitespace")
						}
					}
					return out.norm()
				}
			}
			if len(s.A) == 1 && s.A[0].Line != nil {
				l := *s.A[0].Line
				l.Trimmed = true
				return &StrV{A: []Atom{{Line: &l}}}
			}
			it.unsup("TrimSpace on %s", s)
			return nil
		},
		"strconv.ParseBool": func(it *Interp, a []Value) Value {
			s := a[0].(*StrV)
			if c, ok := s.isConc(); ok {
				v, err := strconv.ParseBool(c)
				if err != nil {
					return TupleV{false, it.mkError(conc(err.Error()))}
				}
				return TupleV{v, IfaceV{}}
			}
			t := it.strTerm(s)
			var tr, fa []string
			for l, v := range parseBoolLits {
				if v {
					tr = append(tr, "(= "+t+" "+it.lit(l)+")")
				} else {
					fa = append(fa, "(= "+t+" "+it.lit(l)+")")
				}
			}
			sortStrings(tr)
			sortStrings(fa)
			if it.branch(&Sym{T: "(or " + strings.Join(tr, " ") + ")", S: "Bool"}, "parsebool-true") {
				return TupleV{true, IfaceV{}}
			}
			if it.branch(&Sym{T: "(or " + strings.Join(fa, " ") + ")", S: "Bool"}, "parsebool-false") {
				return TupleV{false, IfaceV{}}
			}
			return TupleV{false, it.mkError(conc("strconv.ParseBool: invalid syntax"))}
		},
		"(*sync.WaitGroup).Add": func(it *Interp, a []Value) Value {
			k := ptrKey(a[0].(Ptr))
			it.visible("wg", "wg"+k)
			it.sch.wg[k] += int(a[1].(int64))
			if it.sch.wg[k] < 0 {
				panic(&goPanic{msg: "sync: negative WaitGroup counter"})
			}
			return nil
		},
		"(*sync.WaitGroup).Done": func(it *Interp, a []Value) Value {
			k := ptrKey(a[0].(Ptr))
			it.visible("wg", "wg"+k)
			it.sch.wg[k]--
			if it.sch.wg[k] < 0 {
				panic(&goPanic{msg: "sync: negative WaitGroup counter"})
			}
			return nil
		},
		"(*sync.WaitGroup).Wait": func(it *Interp, a []Value) Value {
			k := ptrKey(a[0].(Ptr))
			it.visibleWhen("wg", "wg"+k, func() bool { return it.sch.wg[k] == 0 }) // enabled once every Done has happened
			it.block("waitgroup", func() bool { return it.sch.wg[k] == 0 }, nil)
			return nil
		},
		"(*sync.Once).Do": func(it *Interp, a []Value) Value {
			k := ptrKey(a[0].(Ptr))
			// enabled unless another goroutine is inside f: Do returns only when that call has returned
			it.visibleWhen("once", "once"+k, func() bool { return it.sch.onceSt[k] != 1 })
			it.block("once", func() bool { return it.sch.onceSt[k] != 1 }, nil)
			if it.sch.onceSt[k] == 2 {
				return nil
			}
			it.sch.onceSt[k] = 1
			fv := a[1].(*FuncV)
			it.invoke(nil, fv, nil, fv.env)
			it.visible("once", "once"+k) // completion: later callers are ordered after it
			it.sch.onceSt[k] = 2
			return nil
		},
		"(*os.File).Sync": func(it *Interp, a []Value) Value { return IfaceV{} },
		P + "vRecord": func(it *Interp, a []Value) Value {
			k, _ := a[0].(*StrV).isConc()
			v := a[1]
			if iv, ok := v.(IfaceV); ok {
				v = iv.v
			}
			it.records = append(it.records, rec{k, v})
			return nil
		},
		P + "vNondetBytes": func(it *Interp, a []Value) Value {
			tag, _ := a[0].(*StrV).isConc()
			cp := int(a[1].(int64))
			arr := &ArrayV{}
			for i := 0; i < cp; i++ {
				arr.E = append(arr.E, it.fresh(fmt.Sprintf("%s_%d", tag, i), "BV8"))
			}
			n := it.fresh(tag+"_len", "BV64")
			it.sol.assert(fmt.Sprintf("(bvule %s (_ bv%d 64))", n.T, cp))
			return SliceV{arr: it.newObj(nil, arr), ln: n, cp: cp}
		},
		P + "vSub": func(it *Interp, a []Value) Value { // substring atom: base, off, cnt
			base := a[0].(*StrV)
			t := "(substr " + it.strTerm(base) + " " + it.iterm(a[1], 64) + " " + it.iterm(a[2], 64) + ")"
			if !it.sol.decl["substr"] {
				it.sol.decl["substr"] = true
				it.sol.send("(declare-fun substr (Str (_ BitVec 64) (_ BitVec 64)) Str)")
			}
			it.sol.assert("(= (len " + t + ") " + it.iterm(a[2], 64) + ")")
			it.subs[t] = subInfo{base: it.strTerm(base), off: it.iterm(a[1], 64), cnt: it.iterm(a[2], 64)}
			return &StrV{A: []Atom{{Sym: t}}}
		},
		P + "vConcatIs": func(it *Interp, a []Value) Value { // do the pieces (in order) make up exactly `whole`?
			whole := it.strTerm(a[1].(*StrV))
			pos := bvLit(0, 64)
			for _, pv := range it.varargs(a[0]) {
				p := pv.(*StrV).norm()
				if len(p.A) == 0 {
					continue
				}
				if len(p.A) != 1 {
					return false
				}
				if p.A[0].Sym == whole { // the whole line in one piece
					if it.sol.check("(not (= "+pos+" (_ bv0 64)))") != "unsat" {
						return false
					}
					pos = "(len " + whole + ")"
					continue
				}
				si, ok := it.subs[p.A[0].Sym]
				if !ok || si.base != whole {
					return false
				}
				if it.sol.check("(not (= "+si.off+" "+pos+"))") != "unsat" { // contiguity must be implied by the path
					return false
				}
				pos = "(bvadd " + pos + " " + si.cnt + ")"
			}
			return it.sol.check("(not (= "+pos+" (len "+whole+")))") == "unsat"
		},
		"strings.HasPrefix": func(it *Interp, a []Value) Value {
			s, p := a[0].(*StrV), a[1].(*StrV)
			cs, ok1 := s.isConc()
			cp, ok2 := p.isConc()
			if ok1 && ok2 {
				return strings.HasPrefix(cs, cp)
			}
			if !ok2 {
				it.unsup("HasPrefix symbolic prefix")
			}
			if r, ok := it.hasPrefixStruct(s.norm().A, cp); ok {
				return r
			}
			st := it.strTerm(s)
			if !it.sol.decl["hasprefix"] {
				it.sol.decl["hasprefix"] = true
				it.sol.send("(declare-fun hasprefix (Str Str) Bool)")
			}
			t := "(hasprefix " + st + " " + it.lit(cp) + ")"
			if !it.catSeen[t] {
				it.catSeen[t] = true
				it.sol.assert("(=> " + t + " (bvuge (len " + st + ") " + bvLit(int64(len(cp)), 64) + "))")
				if len(cp) > 0 {
					if !it.sol.decl["char0"] {
						it.sol.decl["char0"] = true
						it.sol.send("(declare-fun char0 (Str) (_ BitVec 8))")
					}
					it.sol.assert("(=> " + t + " (= (char0 " + st + ") " + bvLit(int64(cp[0]), 8) + "))")
				}
				// distinct prefixes none of which is a prefix of another are mutually exclusive
				for _, o := range it.prefixes[st] {
					if !strings.HasPrefix(o, cp) && !strings.HasPrefix(cp, o) {
						it.sol.assert("(not (and " + t + " (hasprefix " + st + " " + it.lit(o) + ")))")
					}
				}
				it.prefixes[st] = append(it.prefixes[st], cp)
			}
			return &Sym{T: t, S: "Bool"}
		},
		"strings.ToLower": func(it *Interp, a []Value) Value {
			s := a[0].(*StrV)
			if c, ok := s.isConc(); ok {
				return conc(strings.ToLower(c))
			}
			return it.ufStr("lower", s, func(l string) string { return strings.ToLower(l) })
		},
		P + "vExitThread": func(it *Interp, a []Value) Value { panic(abortPath{}) },
		// vAnyOf / vAllOf: disjunction / conjunction as ONE term, without the path split Go's || and && cause
		P + "vAnyOf": func(it *Interp, a []Value) Value { return it.boolN("or", it.varargs(a[0])) },
		P + "vAllOf": func(it *Interp, a []Value) Value { return it.boolN("and", it.varargs(a[0])) },
		P + "vCurProc":    func(it *Interp, a []Value) Value { return int64(it.sch.cur.proc) },
		P + "vSetProc":    func(it *Interp, a []Value) Value { it.sch.cur.proc = int(a[0].(int64)); return nil },
		P + "vGoID":       func(it *Interp, a []Value) Value { return int64(it.sch.cur.id) },
		P + "vLiveGoroutines": func(it *Interp, a []Value) Value { // goroutines of the caller's process still alive (not daemons, not the caller)
			n := 0
			it.liveDesc = ""
			for _, t := range it.sch.threads {
				if t.done || t.killed || t.daemon || t == it.sch.cur || t.proc != it.sch.cur.proc {
					continue
				}
				n++
				it.liveDesc += fmt.Sprintf(" [%s blocked on %s at %s]", t.name, t.waitDesc, t.waitPos)
			}
			if n > 0 {
				it.records = append(it.records, rec{"live-goroutines", conc(it.liveDesc)})
			}
			return int64(n)
		},
		P + "vKillProc": func(it *Interp, a []Value) Value { // every goroutine of the process stops at once; no deferred call runs
			p := int(a[0].(int64))
			self := false
			for _, t := range it.sch.threads {
				if t.done || t.proc != p {
					continue
				}
				if t == it.sch.cur {
					self = true
				} else {
					t.killed = true
				}
			}
			if self {
				panic(abortPath{})
			}
			return nil
		},
		P + "vClone": func(it *Interp, a []Value) Value { // what marshalling does to a message crossing a process boundary
			iv := a[0].(IfaceV)
			return IfaceV{t: iv.t, v: it.deepCopy(iv.v, map[*Obj]*Obj{})}
		},
		P + "vCopyInto": func(it *Interp, a []Value) Value { // *dst = deep copy of *src
			d, s := a[0].(IfaceV).v.(Ptr), a[1].(IfaceV).v.(Ptr)
			it.store(d, it.deepCopy(it.load(s), map[*Obj]*Obj{}))
			return nil
		},
		P + "vNewLike": func(it *Interp, a []Value) Value { // a fresh zero value of the pointee type of p, as *T in an interface
			iv := a[0].(IfaceV)
			pt, ok := iv.t.Underlying().(*types.Pointer)
			if !ok {
				it.unsup("vNewLike of non-pointer %s", iv.t)
			}
			return IfaceV{t: iv.t, v: Ptr{o: it.newObj(pt.Elem(), it.zero(pt.Elem()))}}
		},
		P + "vCountSep": func(it *Interp, a []Value) Value {
			sep, _ := a[1].(*StrV).isConc()
			n := 0
			for _, at := range a[0].(*StrV).norm().A {
				if at.Sym != "" {
					if !sepFree(at, sep) && !strings.HasPrefix(at.Sym, "(itoa") {
						it.unsup("vCountSep: atom %s not known free of %q", at.Sym, sep)
					}
					continue
				}
				n += strings.Count(at.Lit, sep)
			}
			return int64(n)
		},
		"strings.Cut": func(it *Interp, a []Value) Value {
			sep, ok := a[1].(*StrV).isConc()
			if !ok || sep == "" {
				it.unsup("Cut symbolic sep")
			}
			s := it.flattenLine(a[0].(*StrV), sep).norm()
			before := &StrV{}
			for i, at := range s.A {
				if at.Sym != "" {
					if !sepFree(at, sep) {
						it.unsup("Cut on atom %s not known free of %q", at.Sym, sep)
					}
					before.A = append(before.A, at)
					continue
				}
				if j := strings.Index(at.Lit, sep); j >= 0 {
					before.A = append(before.A, Atom{Lit: at.Lit[:j]})
					after := &StrV{A: append([]Atom{{Lit: at.Lit[j+len(sep):]}}, s.A[i+1:]...)}
					return TupleV{before.norm(), after.norm(), true}
				}
				before.A = append(before.A, at)
			}
			return TupleV{s, conc(""), false}
		},
		"time.NewTicker": func(it *Interp, a []Value) Value {
			d := a[0].(int64)
			it.nchan++
			ch := &ChanV{id: it.nchan, timer: true, deadline: it.timeAdd(it.sch.now, d), period: d}
			t := it.prog.ImportedPackage("time").Type("Ticker").Type()
			tv := it.zero(t).(*StructV)
			tv.F[0] = ch // field C
			return Ptr{o: it.newObj(t, tv)}
		},
		"(*time.Ticker).Stop": func(it *Interp, a []Value) Value { return nil },
		"time.NewTimer": func(it *Interp, a []Value) Value { // a one-shot timer channel on the symbolic clock
			d, ok := a[0].(int64)
			if !ok {
				it.unsup("time.NewTimer symbolic duration")
			}
			it.nchan++
			ch := &ChanV{id: it.nchan, timer: true, deadline: it.timeAdd(it.sch.now, d)}
			t := it.prog.ImportedPackage("time").Type("Timer").Type()
			tv := it.zero(t).(*StructV)
			tv.F[0] = ch // field C
			return Ptr{o: it.newObj(t, tv)}
		},
		"(*time.Timer).Stop": func(it *Interp, a []Value) Value { return true },
		P + "vCallMethod": func(it *Interp, a []Value) Value { // rcvr any, method string, args any, reply any -> error
			rcvr := a[0].(IfaceV)
			name, _ := a[1].(*StrV).isConc()
			m := it.prog.LookupMethod(rcvr.t, nil, name)
			if m == nil {
				return it.mkError(conc("rpc: can't find method " + name))
			}
			arg := a[2].(IfaceV).v
			reply := a[3].(IfaceV).v
			return it.call(m, []Value{rcvr.v, arg, reply}, nil, nil)
		},
		P + "vFillBytes": func(it *Interp, a []Value) Value { // the reader stores s into the backing array of p
			p := a[0].(SliceV)
			sv := a[1].(*StrV)
			var n Value
			if c, ok := sv.isConc(); ok {
				n = int64(len(c))
			} else {
				n = it.strLen(sv)
			}
			it.raceAccessAt(Ptr{o: p.arr}, true, it.curPos) // a library write into the caller's buffer: the caller's line
			p.arr.v = &ByteBuf{s: sv, n: n}
			return n
		},
		P + "vBytesRead": func(it *Interp, a []Value) Value { // marshal: read the bytes of p now
			p := a[0].(SliceV)
			if p.arr != nil {
				it.raceAccessAt(Ptr{o: p.arr}, false, it.curPos)
			}
			return it.convert(p, types.NewSlice(types.Typ[types.Uint8]), types.Typ[types.String])
		},
		"strings.SplitN": func(it *Interp, a []Value) Value {
			sep, ok := a[1].(*StrV).isConc()
			n, ok2 := a[2].(int64)
			if !ok || !ok2 || sep == "" {
				it.unsup("SplitN with symbolic separator or count")
			}
			s := it.flattenLine(a[0].(*StrV), sep)
			parts := it.strSplit(s, sep)
			if n == 0 {
				return SliceV{ln: int64(0)}
			}
			if n > 0 && int64(len(parts)) > n {
				rest := &StrV{}
				for i := int(n) - 1; i < len(parts); i++ {
					if i > int(n)-1 {
						rest.A = append(rest.A, Atom{Lit: sep})
					}
					rest.A = append(rest.A, parts[i].A...)
				}
				parts = append(parts[:n-1:n-1], rest.norm())
			}
			return it.strSlice(parts)
		},
		"strings.Count": func(it *Interp, a []Value) Value {
			sep, ok := a[1].(*StrV).isConc()
			if !ok || sep == "" {
				it.unsup("Count with symbolic or empty separator")
			}
			s := it.flattenLine(a[0].(*StrV), sep)
			return int64(len(it.strSplit(s, sep)) - 1)
		},
		"strings.TrimPrefix": func(it *Interp, a []Value) Value {
			pre, ok := a[1].(*StrV).isConc()
			if !ok {
				it.unsup("TrimPrefix symbolic prefix")
			}
			s := a[0].(*StrV).norm()
			if c, ok := s.isConc(); ok {
				return conc(strings.TrimPrefix(c, pre))
			}
			if len(s.A) > 0 && s.A[0].Sym == "" && s.A[0].Line == nil && len(s.A[0].Lit) >= len(pre) {
				if strings.HasPrefix(s.A[0].Lit, pre) {
					out := &StrV{A: append([]Atom{{Lit: s.A[0].Lit[len(pre):]}}, s.A[1:]...)}
					return out.norm()
				}
				return s
			}
			it.unsup("TrimPrefix on a string whose head is not a literal")
			return nil
		},
		"strings.Contains": func(it *Interp, a []Value) Value {
			s, ok1 := a[0].(*StrV).isConc()
			p, ok2 := a[1].(*StrV).isConc()
			if ok1 && ok2 {
				return strings.Contains(s, p)
			}
			if ok2 { // a literal atom containing p settles it
				for _, at := range a[0].(*StrV).norm().A {
					if at.Sym == "" && at.Line == nil && strings.Contains(at.Lit, p) {
						return true
					}
				}
			}
			it.unsup("strings.Contains on a symbolic string")
			return nil
		},
		"strings.HasSuffix": func(it *Interp, a []Value) Value {
			s, suf := a[0].(*StrV).norm(), a[1].(*StrV)
			cs, ok2 := suf.isConc()
			if !ok2 {
				it.unsup("HasSuffix symbolic suffix")
			}
			if c, ok := s.isConc(); ok {
				return strings.HasSuffix(c, cs)
			}
			if n := len(s.A); n > 0 && s.A[n-1].Sym == "" && s.A[n-1].Line == nil && len(s.A[n-1].Lit) >= len(cs) {
				return strings.HasSuffix(s.A[n-1].Lit, cs)
			}
			it.unsup("HasSuffix on a string whose tail is not a literal")
			return nil
		},
		"strings.TrimSuffix": func(it *Interp, a []Value) Value {
			suf, ok := a[1].(*StrV).isConc()
			if !ok {
				it.unsup("TrimSuffix symbolic suffix")
			}
			s := a[0].(*StrV).norm()
			if n := len(s.A); n > 0 && s.A[n-1].Sym == "" && s.A[n-1].Line == nil && len(s.A[n-1].Lit) >= len(suf) {
				if strings.HasSuffix(s.A[n-1].Lit, suf) {
					out := &StrV{A: append([]Atom{}, s.A...)}
					out.A[n-1].Lit = strings.TrimSuffix(out.A[n-1].Lit, suf)
					return out.norm()
				}
				return s
			}
			it.unsup("TrimSuffix on a string whose tail is not a literal")
			return nil
		},
		P + "vIsConcrete": func(it *Interp, a []Value) Value {
			_, ok := a[0].(*StrV).isConc()
			return ok
		},
		P + "vDone": func(it *Interp, a []Value) Value { panic(pathEnd{"ok"}) },
		P + "vSymLine": func(it *Interp, a []Value) Value {
			name, _ := a[0].(*StrV).isConc()
			max := int(a[1].(int64))
			sep, _ := a[2].(*StrV).isConc()
			l := &LineV{Name: name, Sep: sep}
			it.lines[name] = l
			n := it.fresh(name+"_n", "BV64")
			it.sol.assert(fmt.Sprintf("(and (bvuge %s (_ bv1 64)) (bvule %s (_ bv%d 64)))", n.T, n.T, max))
			l.N = n
			for i := 0; i < max; i++ {
				f := it.fresh(fmt.Sprintf("%s_f%d", name, i), "Str")
				it.sol.assert("(bvult (len " + f.T + ") (_ bv2147483648 64))")
				l.Fields = append(l.Fields, f.T)
			}
			return &StrV{A: []Atom{{Line: l}}}
		},
		// oracle-side accessors on a structured line (spec primitives)
		P + "vLineN": func(it *Interp, a []Value) Value {
			return a[0].(*StrV).A[0].Line.N
		},
		P + "vLineField": func(it *Interp, a []Value) Value {
			l := a[0].(*StrV).A[0].Line
			return &StrV{A: []Atom{{Sym: l.Fields[a[1].(int64)], NoSep: l.Sep}}}
		},
		P + "vAtoiOK": func(it *Interp, a []Value) Value {
			s := a[0].(*StrV)
			if c, ok := s.isConc(); ok {
				_, err := strconv.Atoi(c)
				return err == nil
			}
			return &Sym{T: "(atoi_ok " + it.strTerm(s) + ")", S: "Bool"}
		},
		P + "vAtoiVal": func(it *Interp, a []Value) Value {
			s := a[0].(*StrV)
			if c, ok := s.isConc(); ok {
				v, _ := strconv.Atoi(c)
				return int64(v)
			}
			return &Sym{T: "(atoi_val " + it.strTerm(s) + ")", S: "BV64"}
		},
		P + "vNondetOK": func(it *Interp, a []Value) Value { // nondet choice tied to a string via a UF predicate
			pred, _ := a[0].(*StrV).isConc()
			s := a[1].(*StrV)
			if !it.sol.decl["uf_"+pred] {
				it.sol.decl["uf_"+pred] = true
				it.sol.send("(declare-fun uf_" + pred + " (Str) Bool)")
			}
			t := "(uf_" + pred + " " + it.strTerm(s) + ")"
			if !it.catSeen[t] {
				it.catSeen[t] = true
				st := it.strTerm(s)
				switch pred { // true facts about the real functions, needed to keep models realisable
				case "x509":
					it.sol.assert("(=> " + t + " (and (not (atoi_ok " + st + ")) (bvuge (len " + st + ") (_ bv100 64))))")
				case "resolve_tcp":
					it.sol.assert("(=> " + t + " (and (not (atoi_ok " + st + ")) (bvuge (len " + st + ") (_ bv2 64))))")
				case "b64":
					it.sol.assert("(=> " + t + " (not (= ((_ extract 1 0) (len " + st + ")) #b01)))")
				}
			}
			return &Sym{T: t, S: "Bool"}
		},
	}
	for k, v := range more {
		intrinsics[k] = v
	}
}

func sortStrings(a []string) {
	for i := 1; i < len(a); i++ {
		for j := i; j > 0 && a[j] < a[j-1]; j-- {
			a[j], a[j-1] = a[j-1], a[j]
		}
	}
}

type subInfo struct{ base, off, cnt string }

// ufStr: an uninterpreted Str->Str function with its value on every known literal asserted
func (it *Interp) ufStr(name string, s *StrV, f func(string) string) Value {
	if !it.sol.decl["uf_"+name] {
		it.sol.decl["uf_"+name] = true
		it.sol.send("(declare-fun uf_" + name + " (Str) Str)")
		it.ufIsStr["uf_"+name] = true
	}
	t := "(uf_" + name + " " + it.strTerm(s) + ")"
	it.ufStrUsed[name] = f
	return &StrV{A: []Atom{{Sym: t}}}
}

// hasPrefixStruct decides HasPrefix(s, p) structurally where the shape of s allows it exactly:
// literal atoms are compared byte for byte; a symbolic atom known to be free of a character c, followed by a
// literal that starts with c, can match a prefix containing c only by being equal to the part of p before c.
func (it *Interp) hasPrefixStruct(atoms []Atom, p string) (Value, bool) {
	if p == "" {
		return true, true
	}
	if len(atoms) == 0 {
		return false, true
	}
	a := atoms[0]
	if a.Line != nil {
		return nil, false
	}
	if a.Sym == "" {
		if len(a.Lit) >= len(p) {
			return strings.HasPrefix(a.Lit, p), true
		}
		if !strings.HasPrefix(p, a.Lit) {
			return false, true
		}
		return it.hasPrefixStruct(atoms[1:], p[len(a.Lit):])
	}
	if len(atoms) > 1 && atoms[1].Sym == "" && atoms[1].Line == nil && atoms[1].Lit != "" && a.NoSep != "" && a.NoSep != "*digits" {
		c := atoms[1].Lit[:1]
		if strings.Contains(a.NoSep, c) {
			j := strings.Index(p, c)
			if j >= 0 {
				rest, ok := it.hasPrefixStruct(atoms[1:], p[j:])
				if !ok {
					return nil, false
				}
				eq := it.strEq(&StrV{A: []Atom{a}}, conc(p[:j]))
				return it.and(eq, rest), true
			}
		}
	}
	return nil, false
}

func (it *Interp) and(a, b Value) Value {
	if ca, ok := a.(bool); ok {
		if !ca {
			return false
		}
		return b
	}
	if cb, ok := b.(bool); ok {
		if !cb {
			return false
		}
		return a
	}
	return &Sym{T: "(and " + a.(*Sym).T + " " + b.(*Sym).T + ")", S: "Bool"}
}

func (it *Interp) deepCopy(v Value, seen map[*Obj]*Obj) Value {
	switch x := v.(type) {
	case Ptr:
		if x.o == nil {
			return x
		}
		if n, ok := seen[x.o]; ok {
			return Ptr{o: n, path: x.path}
		}
		n := it.newObj(x.o.typ, nil)
		seen[x.o] = n
		n.v = it.deepCopy(x.o.v, seen)
		return Ptr{o: n, path: x.path}
	case *StructV:
		n := &StructV{F: make([]Value, len(x.F))}
		for i, f := range x.F {
			n.F[i] = it.deepCopy(f, seen)
		}
		return n
	case *ArrayV:
		n := &ArrayV{E: make([]Value, len(x.E))}
		for i, f := range x.E {
			n.E[i] = it.deepCopy(f, seen)
		}
		return n
	case SliceV:
		if x.arr == nil {
			return x
		}
		if n, ok := seen[x.arr]; ok {
			return SliceV{arr: n, off: x.off, ln: x.ln, cp: x.cp}
		}
		n := it.newObj(x.arr.typ, nil)
		seen[x.arr] = n
		switch b := x.arr.v.(type) {
		case *ByteBuf:
			n.v = &ByteBuf{s: b.s, n: b.n}
		case *StrBytes:
			n.v = &StrBytes{s: b.s}
		default:
			n.v = it.deepCopy(x.arr.v, seen)
		}
		return SliceV{arr: n, off: x.off, ln: x.ln, cp: x.cp}
	case IfaceV:
		return IfaceV{t: x.t, v: it.deepCopy(x.v, seen)}
	case *MapV:
		if x == nil {
			return x
		}
		n := &MapV{kt: x.kt, vt: x.vt}
		for i := range x.keys {
			n.keys = append(n.keys, x.keys[i])
			n.vals = append(n.vals, it.deepCopy(x.vals[i], seen))
		}
		return n
	}
	return v
}

// flattenLine: a structured line (lead-ws ++ f0 sep f1 ... ++ trail-ws) whose field count is symbolic becomes an
// ordinary concatenation of atoms once the count is fixed: the count is case-split (one decision), so that
// operations that need the shape (SplitN, Cut, Count) are exact.
func (it *Interp) flattenLine(s *StrV, sep string) *StrV {
	n := s.norm()
	has := false
	for _, a := range n.A {
		if a.Line != nil {
			has = true
		}
	}
	if !has {
		return n
	}
	out := &StrV{}
	for _, a := range n.A {
		if a.Line == nil {
			out.A = append(out.A, a)
			continue
		}
		l := a.Line
		if !l.Trimmed || l.Sep != sep {
			it.unsup("operation on an untrimmed structured line / other separator")
		}
		k := len(l.Fields)
		if ns, ok := l.N.(*Sym); ok {
			k = 0
			for c := 1; c <= len(l.Fields); c++ {
				if it.branch(&Sym{T: "(= " + ns.T + " " + bvLit(int64(c), 64) + ")", S: "Bool"}, "line-fields") {
					k = c
					break
				}
			}
			if k == 0 {
				panic(infeasible{})
			}
		}
		for i := 0; i < k; i++ {
			if i > 0 {
				out.A = append(out.A, Atom{Lit: sep})
			}
			out.A = append(out.A, Atom{Sym: l.Fields[i], NoSep: sep})
		}
	}
	return out
}

func (it *Interp) boolN(op string, args []Value) Value {
	var terms []string
	for _, v := range args {
		if iv, ok := v.(IfaceV); ok {
			v = iv.v
		}
		switch b := v.(type) {
		case bool:
			if b == (op == "or") {
				return b // true in a disjunction, false in a conjunction: decided
			}
		case *Sym:
			terms = append(terms, b.T)
		}
	}
	if len(terms) == 0 {
		return op == "and"
	}
	if len(terms) == 1 {
		return &Sym{T: terms[0], S: "Bool"}
	}
	return &Sym{T: "(" + op + " " + strings.Join(terms, " ") + ")", S: "Bool"}
}
