package main

import (
	"fmt"
	"sort"
	"strings"

	"golang.org/x/tools/go/ssa"
	"golang.org/x/tools/go/ssa/ssautil"
)

// cmdExternals lists every function outside go-plugin that go-plugin's own code calls (the seam the models cover).
func cmdExternals() int {
	p, err := loadProgram(nil, nil)
	if err != nil {
		fmt.Println(err)
		return 2
	}
	callers := map[string]map[string]bool{}
	for fn := range ssautil.AllFunctions(p.prog) {
		if fn.Pkg == nil || !strings.HasPrefix(fn.Pkg.Pkg.Path(), "github.com/hashicorp/go-plugin") || strings.Contains(fn.Pkg.Pkg.Path(), "internal/plugin") {
			continue
		}
		if pos := p.prog.Fset.Position(fn.Pos()); strings.HasSuffix(pos.Filename, "_test.go") {
			continue
		}
		for _, b := range fn.Blocks {
			for _, ins := range b.Instrs {
				var cc *ssa.CallCommon
				switch x := ins.(type) {
				case *ssa.Call:
					cc = &x.Call
				case *ssa.Go:
					cc = &x.Call
				case *ssa.Defer:
					cc = &x.Call
				}
				if cc == nil {
					continue
				}
				name := ""
				if cc.IsInvoke() {
					name = "invoke " + cc.Value.Type().String() + "." + cc.Method.Name()
				} else if callee := cc.StaticCallee(); callee != nil {
					if callee.Pkg != nil && strings.HasPrefix(callee.Pkg.Pkg.Path(), "github.com/hashicorp/go-plugin") && !strings.Contains(callee.Pkg.Pkg.Path(), "internal/plugin") {
						continue
					}
					name = callee.String()
				} else {
					continue
				}
				if callers[name] == nil {
					callers[name] = map[string]bool{}
				}
				callers[name][fn.Name()] = true
			}
		}
	}
	var names []string
	for n := range callers {
		names = append(names, n)
	}
	sort.Strings(names)
	for _, n := range names {
		var cs []string
		for c := range callers[n] {
			cs = append(cs, c)
		}
		sort.Strings(cs)
		if len(cs) > 4 {
			cs = append(cs[:4], "...")
		}
		fmt.Printf("%-70s %s\n", n, strings.Join(cs, ","))
	}
	return 0
}
