package main

import (
	"fmt"
	"go/types"
	"strings"

	"golang.org/x/tools/go/ssa"
)

type Value interface{}

// Sym is a symbolic scalar: an SMT term with a sort ("Bool", "BV8".."BV64").
type Sym struct {
	T string
	S string
}

// Atom of a string: literal or symbolic Str constant/term.
type Atom struct {
	Lit   string
	Sym   string // SMT term of sort Str (if non-empty)
	NoSep string // characters known not to occur (only for Sym); "*digits" means only [-0-9]
	Line  *LineV // structured line: lead-ws ++ f0 sep f1 ... ++ trail-ws
}

// LineV is the unique decomposition of an arbitrary byte string into TrimSpace-removable
// ends and maximal sep-free fields.
type LineV struct {
	Name    string
	Sep     string
	Fields  []string // Str terms
	N       Value    // number of fields: *Sym BV64 in [1,len(Fields)]
	Trimmed bool
}

type StrV struct{ A []Atom }

func conc(s string) *StrV {
	if s == "" {
		return &StrV{}
	}
	return &StrV{A: []Atom{{Lit: s}}}
}

func (s *StrV) norm() *StrV {
	var out []Atom
	for _, a := range s.A {
		if a.Sym == "" && a.Line == nil {
			if a.Lit == "" {
				continue
			}
			if n := len(out); n > 0 && out[n-1].Sym == "" && out[n-1].Line == nil {
				out[n-1].Lit += a.Lit
				continue
			}
		}
		out = append(out, a)
	}
	return &StrV{A: out}
}

func (s *StrV) isConc() (string, bool) {
	n := s.norm()
	if len(n.A) == 0 {
		return "", true
	}
	if len(n.A) == 1 && n.A[0].Sym == "" && n.A[0].Line == nil {
		return n.A[0].Lit, true
	}
	return "", false
}

func (s *StrV) String() string {
	var b strings.Builder
	for _, a := range s.A {
		if a.Line != nil {
			b.WriteString("<line " + a.Line.Name + ">")
		} else if a.Sym != "" {
			b.WriteString("<" + a.Sym + ">")
		} else {
			b.WriteString(a.Lit)
		}
	}
	return b.String()
}

type Obj struct {
	id  int
	typ types.Type
	v   Value
}

type Ptr struct {
	o    *Obj
	path []int
}

func (p Ptr) isNil() bool { return p.o == nil }

type StructV struct{ F []Value }
type ArrayV struct{ E []Value }
type SliceV struct {
	arr *Obj // holds *ArrayV ; nil for nil slice
	off int
	ln  Value // int64 or *Sym
	cp  int
}
type MapV struct {
	keys []Value
	vals []Value
	kt   types.Type
	vt   types.Type
}
type IfaceV struct {
	t types.Type // nil => nil interface
	v Value
}
type FuncV struct {
	fn   *ssa.Function
	env  []Value
	name string // builtin / intrinsic
}
// StrBytes: a []byte whose content is an abstract string (view); held as the .v of the backing Obj
type StrBytes struct{ s *StrV }

// ByteBuf: a byte array whose first n bytes currently hold the abstract string s (rest unspecified)
type ByteBuf struct {
	s *StrV
	n Value
}

type TupleV []Value
type IterV struct {
	m    *MapV
	keys []Value
	str  *StrV
}

func copyVal(v Value) Value {
	switch x := v.(type) {
	case *StructV:
		n := &StructV{F: make([]Value, len(x.F))}
		for i, f := range x.F {
			n.F[i] = copyVal(f)
		}
		return n
	case *ArrayV:
		n := &ArrayV{E: make([]Value, len(x.E))}
		for i, f := range x.E {
			n.E[i] = copyVal(f)
		}
		return n
	}
	return v
}

func show(v Value) string {
	switch x := v.(type) {
	case *Sym:
		return x.T
	case *StrV:
		return fmt.Sprintf("%q", x.String())
	case Ptr:
		if x.o == nil {
			return "nilptr"
		}
		return fmt.Sprintf("&obj%d%v", x.o.id, x.path)
	case IfaceV:
		if x.t == nil {
			return "nil-iface"
		}
		return fmt.Sprintf("iface(%s:%s)", x.t, show(x.v))
	case TupleV:
		var p []string
		for _, e := range x {
			p = append(p, show(e))
		}
		return "(" + strings.Join(p, ", ") + ")"
	}
	return fmt.Sprintf("%v", v)
}
