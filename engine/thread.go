package main

import (
	"fmt"
	"strings"
	"sync"
	"os"
	"runtime/debug"
	"go/types"

	"golang.org/x/tools/go/ssa"
)

// Cooperative threads: each interpreted goroutine runs on its own Go goroutine,
// but exactly one runs at a time; the scheduler (main goroutine) hands out turns.

type Thread struct {
	id        int
	name      string
	wake      chan bool // true = run, false = abort
	done      bool
	cond      func() bool // nil => runnable
	deadlines []Value     // instants at which cond may become true
	daemon    bool
	waitDesc  string
	pending   opDesc
	vc        map[int]int
	parked    bool // parked at a visible op (DPOR mode)
	recvOn    []*ChanV // channels this goroutine is currently blocked receiving from
	fr        *frame   // innermost frame (for diagnostics)
	proc      int      // modelled OS process this goroutine belongs to (0 = host / harness)
	killed    bool     // its process was killed: reaped by the scheduler
	waitPos   string   // go-plugin source line of the operation it is blocked in
	forced    *ChanV   // a select-send on an unbuffered channel handed its value to this (parked) receiver: it must take it
}

type opDesc struct{ kind, obj, pos string }

type transRec struct {
	tname   string
	tid     int
	op      opDesc
	vc      map[int]int
	decIdx  int
	enabled []int
}

type ChanV struct {
	reserved *Thread // the deposited value of an unbuffered rendezvous is for this receiver only
	id       int
	cap      int
	buf      []Value
	closed   bool
	timer    bool
	deadline Value
	fired    bool
	taken    bool
	period   int64
	seq      int
	taken2   int
}

type abortPath struct{}

type Sched struct {
	threads []*Thread
	cur     *Thread
	yield   chan struct{}
	now     Value // int64 or *Sym (BV64 ns)
	why     string
	locks   map[string]bool
	rw      map[string]*rwState
	hangWhere string
	wg      map[string]int
	once    map[string]bool
	onceSt  map[string]int
	exhaust bool
	budget  int
	forced  *Thread
	last    *Thread
	dpor    bool
	race    bool
	maxRev  int
	trace   []transRec
	objVC   map[string]map[int]int
	lastW   map[string]access
	reads   map[string]map[int]access
	races   map[string]bool
}

func (it *Interp) spawn(name string, fn func()) *Thread {
	t := &Thread{id: len(it.sch.threads), name: name, wake: make(chan bool), vc: map[int]int{}}
	if it.sch.cur != nil && it.sch.cur.vc != nil {
		t.vc = vcCopy(it.sch.cur.vc)
		it.sch.cur.vc[it.sch.cur.id]++ // the parent moves past the fork
	}
	t.vc[t.id] = 1
	if it.sch.cur != nil {
		t.proc = it.sch.cur.proc
	}
	it.sch.threads = append(it.sch.threads, t)
	go func() {
		if !<-t.wake {
			t.done = true
			it.sch.yield <- struct{}{}
			return
		}
		defer func() {
			t.done = true
			if r := recover(); r != nil {
				switch x := r.(type) {
				case abortPath:
				case pathEnd:
					it.endPath(x.why)
				case infeasible:
					it.endPath("infeasible")
				case *goPanic:
					it.endPath("PANIC in " + t.name + ": " + x.msg)
				case unsupported:
					it.endPath("UNSUPPORTED: " + x.what)
				default:
					if debugStack {
						fmt.Fprintf(os.Stderr, "INTERNAL %v\n%s\n", r, debug.Stack())
					}
					it.endPath(fmt.Sprintf("INTERNAL: %v", r))
				}
			}
			it.sch.yield <- struct{}{}
		}()
		fn()
	}()
	return t
}

func (it *Interp) endPath(why string) {
	if it.sch.why == "" {
		it.sch.why = why
	}
}

// called on a thread: give up the processor until cond() holds
func (it *Interp) block(desc string, cond func() bool, deadlines func() []Value) {
	t := it.sch.cur
	for !cond() {
		t.cond = cond
		t.waitDesc = desc
		t.waitPos = it.curPos
		if deadlines != nil {
			t.deadlines = deadlines()
		} else {
			t.deadlines = nil
		}
		it.yieldNow()
	}
	t.cond = nil
	t.deadlines = nil
}

// visible: in DPOR mode every visible operation is preceded by a scheduling point.
func (it *Interp) visible(kind, obj string) { it.visibleWhen(kind, obj, nil) }

// visibleWhen: the operation is enabled only while cond holds (a Lock while the mutex is free, a receive while the
// channel has something): the scheduler does not pick the goroutine before, so the operation is ordered after the
// operation that enabled it and inherits its clock.
func (it *Interp) visibleWhen(kind, obj string, cond func() bool) {
	s := it.sch
	if !s.dpor || s.cur == nil {
		return
	}
	t := s.cur
	t.pending = opDesc{kind, obj, it.curPos}
	t.parked = true
	if cond != nil { // kept even if it holds now: another goroutine may disable the operation before this one is picked
		t.cond = cond
		t.waitDesc = kind
		t.waitPos = it.curPos
	}
	it.yieldNow()
	t.cond = nil
	t.parked = false
}

func vcCopy(a map[int]int) map[int]int {
	b := map[int]int{}
	for k, v := range a {
		b[k] = v
	}
	return b
}

func vcJoin(a, b map[int]int) {
	for k, v := range b {
		if v > a[k] {
			a[k] = v
		}
	}
}

// record the transition about to be executed by t, and add DPOR backtrack points
func (it *Interp) dporExec(t *Thread, decIdx int, enabled []int) {
	s := it.sch
	op := t.pending
	if t.vc == nil {
		t.vc = map[int]int{}
	}
	if op.obj != "" {
		// last dependent transition by another thread that does not happen-before t's current state
		for i := len(s.trace) - 1; i >= 0; i-- {
			r := s.trace[i]
			if r.op.obj != op.obj || r.tid == t.id {
				continue
			}
			if op.kind == "lock" && r.op.kind == "unlock" {
				// a Lock is never co-enabled with the Unlock that frees the mutex: the transition it races with is the
				// Lock that opened that critical section (running us before the Unlock would only park us)
				continue
			}
			if r.vc[r.tid] <= t.vc[r.tid] {
				break // already ordered before us (and so are earlier dependent ones)
			}
			// race: try to run t before r
			if r.decIdx >= 0 && r.decIdx < len(it.ex.stack) {
				if it.ex.reversals(r.decIdx) < s.maxRev {
					inEn := false
					for _, e := range r.enabled {
						if e == t.id {
							inEn = true
						}
					}
					if inEn {
						it.ex.addAlt(r.decIdx, t.id)
					} else {
						for _, e := range r.enabled {
							it.ex.addAlt(r.decIdx, e)
						}
					}
				}
			}
			break
		}
	}
	t.vc[t.id]++
	if op.obj != "" {
		if s.objVC[op.obj] == nil {
			s.objVC[op.obj] = map[int]int{}
		}
		vcJoin(t.vc, s.objVC[op.obj])
		s.objVC[op.obj] = vcCopy(t.vc)
	}
	s.trace = append(s.trace, transRec{tname: t.name, tid: t.id, op: op, vc: vcCopy(t.vc), decIdx: decIdx, enabled: enabled})
}

// preemptPoint: before a visible operation, optionally switch to another runnable goroutine (costs budget)
func (it *Interp) preemptPoint() {
	s := it.sch
	if !s.exhaust || s.budget <= 0 || s.cur == nil {
		return
	}
	t := s.cur
	var others []*Thread
	for _, o := range s.threads {
		if o == t || o.done {
			continue
		}
		s.cur = o
		if o.cond == nil || o.cond() {
			others = append(others, o)
		}
	}
	s.cur = t
	if len(others) == 0 {
		return
	}
	k := it.choose(len(others)+1, "preempt")
	if k == 0 {
		return
	}
	s.budget--
	s.forced = others[k-1]
	it.yieldNow()
}

func (it *Interp) yieldNow() {
	t := it.sch.cur
	it.sch.yield <- struct{}{}
	if !<-t.wake {
		panic(abortPath{})
	}
	it.sch.cur = t
}

func (it *Interp) timeTerm(v Value) string { return it.iterm(v, 64) }

func (it *Interp) timeLE(a, b Value) Value {
	ca, oka := a.(int64)
	cb, okb := b.(int64)
	if oka && okb {
		return ca <= cb
	}
	return &Sym{T: "(bvule " + it.timeTerm(a) + " " + it.timeTerm(b) + ")", S: "Bool"}
}

func (it *Interp) timeAdd(a Value, d int64) Value {
	if c, ok := a.(int64); ok {
		return c + d
	}
	return &Sym{T: "(bvadd " + it.timeTerm(a) + " " + bvLit(d, 64) + ")", S: "BV64"}
}

// scheduler loop; returns why the path ended
func (it *Interp) schedule() string {
	s := it.sch
	for {
		if s.why != "" {
			break
		}
		var runnable []*Thread
		alive := 0
		for _, t := range s.threads {
			if t.done {
				continue
			}
			if t.killed { // its process died: the goroutine simply stops existing (no defers run)
				t.wake <- false
				<-s.yield
				continue
			}
			alive++
			s.cur = t
			ok := t.cond == nil
			if !ok {
				func() {
					defer func() {
						if r := recover(); r != nil {
							if _, isInf := r.(infeasible); isInf {
								it.endPath("infeasible")
								return
							}
							panic(r)
						}
					}()
					ok = t.cond()
				}()
			}
			if s.why != "" {
				break
			}
			if ok {
				runnable = append(runnable, t)
			}
		}
		if s.why != "" {
			break
		}
		if alive == 0 {
			s.why = "ok"
			break
		}
		if len(runnable) == 0 {
			// advance time to the earliest pending deadline
			var ds []Value
			for _, t := range s.threads {
				if !t.done {
					ds = append(ds, t.deadlines...)
				}
			}
			if len(ds) == 0 {
				onlyDaemons := true
				desc := ""
				where := ""
				for _, t := range s.threads {
					if !t.done && !t.daemon {
						onlyDaemons = false
						desc += fmt.Sprintf(" [%s blocked on %s]", t.name, t.waitDesc)
						where += fmt.Sprintf(" [%s at %s]", t.name, t.waitPos)
					}
				}
				if onlyDaemons {
					s.why = "ok"
				} else {
					s.why = "HANG:" + desc
					s.hangWhere = where
				}
				break
			}
			func() {
				defer func() {
					if r := recover(); r != nil {
						if _, isInf := r.(infeasible); isInf {
							it.endPath("infeasible")
							return
						}
						panic(r)
					}
				}()
				it.advanceTime(ds)
			}()
			continue
		}
		pick := runnable[0]
		if s.dpor {
			def := runnable[0]
			for _, r := range runnable {
				if r == s.last {
					def = r
				}
			}
			var en []int
			for _, r := range runnable {
				en = append(en, r.id)
			}
			decIdx := -1
			if len(runnable) > 1 {
				tid := it.ex.decide("dpor", func() []int { return []int{def.id} })
				decIdx = it.ex.pos - 1
				pick = nil
				for _, r := range runnable {
					if r.id == tid {
						pick = r
					}
				}
				if pick == nil { // alternative not enabled on this path: infeasible schedule
					if it.ex.verify {
						it.ex.diverged = fmt.Sprintf("decision %d (dpor): recorded goroutine %d is not runnable in the current code", decIdx, tid)
					}
					s.why = "infeasible"
					break
				}
			} else {
				pick = def
			}
			if pick.parked {
				it.dporExec(pick, decIdx, en)
			}
		} else if s.exhaust {
			in := func(t *Thread) bool {
				for _, r := range runnable {
					if r == t {
						return true
					}
				}
				return false
			}
			switch {
			case s.forced != nil && in(s.forced):
				pick = s.forced
			case s.last != nil && in(s.last):
				pick = s.last // non-preemptive default: keep running
			case len(runnable) > 1:
				pick = runnable[it.choose(len(runnable), "sched")]
			}
			s.forced = nil
		}
		s.last = pick
		s.cur = pick
		pick.wake <- true
		<-s.yield
	}
	// abort everything still alive
	for _, t := range s.threads {
		if !t.done {
			t.wake <- false
			<-s.yield
		}
	}
	return s.why
}

func (it *Interp) advanceTime(ds []Value) {
	// dedupe syntactically
	var u []Value
	seen := map[string]bool{}
	for _, d := range ds {
		k := it.timeTerm(d)
		if !seen[k] {
			seen[k] = true
			u = append(u, d)
		}
	}
	allConc := true
	for _, d := range u {
		if _, ok := d.(int64); !ok {
			allConc = false
		}
	}
	if allConc {
		m := u[0].(int64)
		for _, d := range u[1:] {
			if d.(int64) < m {
				m = d.(int64)
			}
		}
		if n, ok := it.sch.now.(int64); ok && m < n {
			m = n
		}
		it.sch.now = m
		return
	}
	// which one is earliest? strict for lower indices, non-strict for higher: a partition
	conds := make([]string, len(u))
	for i := range u {
		c := "(and (bvule " + it.timeTerm(it.sch.now) + " " + it.timeTerm(u[i]) + ")"
		for j := range u {
			if j < i {
				c += " (bvult " + it.timeTerm(u[i]) + " " + it.timeTerm(u[j]) + ")"
			} else if j > i {
				c += " (bvule " + it.timeTerm(u[i]) + " " + it.timeTerm(u[j]) + ")"
			}
		}
		conds[i] = c + ")"
	}
	k := it.ex.decide("earliest", func() []int {
		var a []int
		for i, c := range conds {
			if it.sol.check(c) == "sat" {
				a = append(a, i)
			}
		}
		return a
	})
	it.assume(conds[k])
	it.sch.now = u[k]
}

// ---------- channels ----------

func (it *Interp) chanReadyRecv(c *ChanV) bool {
	if c == nil {
		return false
	}
	if c.timer {
		if c.taken {
			return false
		}
		if c.fired {
			return true
		}
		if it.branch(it.timeLE(c.deadline, it.sch.now), "timerdue") {
			c.fired = true
			return true
		}
		return false
	}
	if c.reserved != nil && c.reserved != it.sch.cur {
		return c.closed && len(c.buf) == 0
	}
	return len(c.buf) > 0 || c.closed
}

func (it *Interp) chanRecv(c *ChanV, et types.Type) (Value, bool) {
	if c.timer {
		if c.period > 0 { // ticker: re-arm
			c.deadline = it.timeAdd(c.deadline, c.period)
			c.fired = false
			return it.zero(et), true
		}
		c.taken = true
		return it.zero(et), true
	}
	if len(c.buf) > 0 {
		v := c.buf[0]
		c.buf = c.buf[1:]
		c.taken2++
		return v, true
	}
	return it.zero(et), false // closed
}

func (it *Interp) chanDeadlines(cs ...*ChanV) func() []Value {
	return func() []Value {
		var d []Value
		for _, c := range cs {
			if c != nil && c.timer && !c.fired && !c.taken {
				d = append(d, c.deadline)
			}
		}
		return d
	}
}

func (it *Interp) hasReceiver(c *ChanV) bool { return it.findReceiver(c) != nil }

// findReceiver: a goroutine parked in a receive (or a select with a receive case) on c that is not yet committed
func (it *Interp) findReceiver(c *ChanV) *Thread {
	for _, t := range it.sch.threads {
		if t.done || t.killed || t == it.sch.cur || t.forced != nil {
			continue
		}
		for _, w := range t.recvOn {
			if w == c {
				return t
			}
		}
	}
	return nil
}

func (it *Interp) recv(c *ChanV, et types.Type, commaOk bool) Value {
	it.preemptPoint()
	it.visible("recv", chanKey(c))
	me := it.sch.cur
	me.recvOn = []*ChanV{c}
	it.block("recv", func() bool { return it.chanReadyRecv(c) }, it.chanDeadlines(c))
	me.recvOn = nil
	if me.forced == c {
		me.forced = nil
		c.reserved = nil
	}
	v, ok := it.chanRecv(c, et)
	if commaOk {
		return TupleV{v, ok}
	}
	return v
}

func (it *Interp) send(c *ChanV, v Value) {
	it.preemptPoint()
	it.visible("send", chanKey(c))
	if c == nil {
		it.block("send on nil chan", func() bool { return false }, nil)
	}
	if c.cap == 0 {
		// rendezvous approximated as deposit-then-wait-until-taken
		it.block("send", func() bool { return c.closed || len(c.buf) == 0 }, nil)
		if c.closed {
			panic(&goPanic{msg: "send on closed channel"})
		}
		c.buf = append(c.buf, v)
		c.seq++
		my := c.seq
		it.block("send(rendezvous)", func() bool { return c.taken2 >= my || c.closed }, nil)
		if c.taken2 < my { // the channel was closed under a blocked sender
			panic(&goPanic{msg: "send on closed channel"})
		}
		return
	}
	it.block("send", func() bool { return c.closed || len(c.buf) < c.cap }, nil)
	if c.closed {
		panic(&goPanic{msg: "send on closed channel"})
	}
	c.buf = append(c.buf, v)
}

func (it *Interp) selectOp(fr *frame, x *ssa.Select) Value {
	it.preemptPoint()
	{
		key := "sel"
		for _, st := range x.States {
			c, _ := it.get(fr, st.Chan).(*ChanV)
			if c != nil && !c.timer {
				key = chanKey(c) // first real channel decides the dependence class (prototype simplification)
				break
			}
		}
		it.visible("select", key)
	}
	type st struct {
		c    *ChanV
		send bool
		v    Value
		et   types.Type
	}
	var states []st
	for _, s := range x.States {
		c, _ := it.get(fr, s.Chan).(*ChanV)
		e := st{c: c, send: s.Dir == types.SendOnly, et: s.Chan.Type().Underlying().(*types.Chan).Elem()}
		if e.send {
			e.v = it.get(fr, s.Send)
		}
		states = append(states, e)
	}
	ready := func() []int {
		var r []int
		if f := it.sch.cur.forced; f != nil { // a sender already handed us its value: that case is the one that fires
			for i, s := range states {
				if !s.send && s.c == f {
					return []int{i}
				}
			}
		}
		for i, s := range states {
			if s.send {
				if s.c != nil && (s.c.closed || len(s.c.buf) < s.c.cap || (s.c.cap == 0 && len(s.c.buf) == 0 && it.hasReceiver(s.c))) {
					r = append(r, i)
				}
			} else if it.chanReadyRecv(s.c) {
				r = append(r, i)
			}
		}
		return r
	}
	var r []int
	if x.Blocking {
		var cs []*ChanV
		for _, s := range states {
			if !s.send {
				cs = append(cs, s.c)
			}
		}
		me := it.sch.cur
		me.recvOn = cs
		it.block("select", func() bool { r = ready(); return len(r) > 0 }, it.chanDeadlines(cs...))
		me.recvOn = nil
	} else {
		r = ready()
	}
	idx := -1
	if len(r) == 1 {
		idx = r[0]
	} else if len(r) > 1 {
		if it.isModelFn(fr.fn) || it.cfg.NoSelectFork {
			// a select inside an environment model: its ready cases are equivalent outcomes by construction
			// (models test liveness explicitly); take the first in source order instead of forking
			idx = r[0]
		} else {
			idx = r[it.choose(len(r), "select")]
		}
	}
	if idx >= 0 && it.sch.dpor && states[idx].c != nil && !states[idx].c.timer {
		// happens-before: synchronise with the channel actually used
		k := chanKey(states[idx].c)
		t := it.sch.cur
		if it.sch.objVC[k] == nil {
			it.sch.objVC[k] = map[int]int{}
		}
		vcJoin(t.vc, it.sch.objVC[k])
		it.sch.objVC[k] = vcCopy(t.vc)
	}
	// result tuple: index, recvOk, recv values...
	res := TupleV{int64(idx), false}
	for i, s := range states {
		if s.send {
			continue
		}
		if i == idx {
			v, ok := it.chanRecv(s.c, s.et)
			res[1] = ok
			res = append(res, v)
		} else {
			res = append(res, it.zero(s.et))
		}
	}
	if idx >= 0 && states[idx].send {
		s := states[idx]
		if s.c.closed {
			panic(&goPanic{msg: "send on closed channel"})
		}
		if s.c.cap == 0 { // rendezvous: the parked receiver is committed to this value
			if rt := it.findReceiver(s.c); rt != nil {
				rt.forced = s.c
				s.c.reserved = rt
			}
		}
		s.c.buf = append(s.c.buf, s.v)
	}
	if idx >= 0 && !states[idx].send && it.sch.cur.forced == states[idx].c {
		it.sch.cur.forced = nil
		states[idx].c.reserved = nil
	}
	return res
}

func chanKey(c *ChanV) string {
	if c == nil {
		return ""
	}
	if c.timer {
		return ""
	}
	return fmt.Sprintf("ch%d", c.id)
}

func ptrKey(p Ptr) string { return fmt.Sprintf("%d%v", p.o.id, p.path) }

func (it *Interp) lock(p Ptr) {
	it.preemptPoint()
	k := ptrKey(p)
	it.visibleWhen("lock", "mu"+k, func() bool { return !it.sch.locks[k] })
	it.block("mutex", func() bool { return !it.sch.locks[k] }, nil)
	it.sch.locks[k] = true
}

// acquire joins the clock published on a synchronisation object into the current goroutine's clock (happens-before)
func (it *Interp) acquire(obj string) {
	s := it.sch
	if !s.dpor || s.cur == nil || obj == "" {
		return
	}
	if s.cur.vc == nil {
		s.cur.vc = map[int]int{}
	}
	if vc := s.objVC[obj]; vc != nil {
		vcJoin(s.cur.vc, vc)
	}
}

// release publishes the current goroutine's clock on a synchronisation object
func (it *Interp) release(obj string) {
	s := it.sch
	if !s.dpor || s.cur == nil || obj == "" {
		return
	}
	if s.cur.vc == nil {
		s.cur.vc = map[int]int{}
	}
	if s.objVC[obj] == nil {
		s.objVC[obj] = map[int]int{}
	}
	vcJoin(s.objVC[obj], s.cur.vc)
}

func (it *Interp) unlock(p Ptr) {
	it.visible("unlock", "mu"+ptrKey(p))
	k := ptrKey(p)
	if !it.sch.locks[k] {
		panic(&goPanic{msg: "unlock of unlocked mutex"})
	}
	it.sch.locks[k] = false
}

type access struct {
	tid   int
	clock int
	pos   string
}

// happens-before race check on a heap cell (only accesses made from go-plugin source lines count)
func (it *Interp) raceAccess(p Ptr, write bool) { it.raceAccessAt(p, write, it.curInRepo) }

// raceAccessAt: pos is the go-plugin source line the access is attributed to ("" = not go-plugin's)
func (it *Interp) raceAccessAt(p Ptr, write bool, pos string) {
	s := it.sch
	if s == nil || !s.race || s.cur == nil || p.o == nil || pos == "" {
		return
	}
	t := s.cur
	if t.vc == nil {
		t.vc = map[int]int{}
	}
	key := fmt.Sprintf("%d%v", p.o.id, p.path)
	me := access{t.id, t.vc[t.id], pos}
	report := func(o access, kind string) {
		if o.tid == t.id || o.clock <= t.vc[o.tid] {
			return
		}
		a, b := o.pos, me.pos
		if a > b {
			a, b = b, a
		}
		s.races[kind+" "+a+" / "+b] = true
	}
	if w, ok := s.lastW[key]; ok {
		if write {
			report(w, "write-write")
		} else {
			report(w, "write-read")
		}
	}
	if write {
		for _, r := range s.reads[key] {
			report(r, "read-write")
		}
		s.lastW[key] = me
		delete(s.reads, key)
	} else {
		if s.reads[key] == nil {
			s.reads[key] = map[int]access{}
		}
		s.reads[key][t.id] = me
	}
}

var modelFnCache sync.Map

func (it *Interp) isModelFn(fn *ssa.Function) bool {
	if v, ok := modelFnCache.Load(fn); ok {
		return v.(bool)
	}
	f := fn
	for f.Parent() != nil {
		f = f.Parent()
	}
	name := it.prog.Fset.Position(f.Pos()).Filename
	r := strings.Contains(name, "zz_verif_w_") // world-model files only; harness entry points keep Go's semantics
	modelFnCache.Store(fn, r)
	return r
}

var harnessFnCache sync.Map

// isHarnessFn: any function that comes from an overlaid harness or model file
func (it *Interp) isHarnessFn(fn *ssa.Function) bool {
	if v, ok := harnessFnCache.Load(fn); ok {
		return v.(bool)
	}
	f := fn
	for f.Parent() != nil {
		f = f.Parent()
	}
	r := strings.Contains(it.prog.Fset.Position(f.Pos()).Filename, "zz_verif_")
	harnessFnCache.Store(fn, r)
	return r
}
