package main

import (
	"fmt"
	"os"
	"strings"
	"sync"
	"sync/atomic"
)

// Decision-tree exploration by re-execution, split over workers by decision prefix.
//
// A path is the list of decisions taken. A worker owns a subtree identified by a frozen prefix
// (decisions it must follow) and explores it depth first; when other workers are idle it gives away
// the untried alternatives of its shallowest open decision as new tasks.

type dec struct {
	alts   []int // feasible alternatives
	cur    int   // index into alts
	label  string
	def    int  // the default alternative (first found); a "dpor" decision with alts[cur] != def is a reversal
	frozen bool // part of the task prefix: no alternatives to try here
}

type choice struct {
	label string
	val   int
	def   int
}

type task struct{ prefix []choice }

type Pool struct {
	mu      sync.Mutex
	cond    *sync.Cond
	queue   []task
	idle    int32
	workers int
	closed  bool
	claimed sync.Map // schedule alternatives already owned by some worker: key = prefix-hash|alt

	nodes int64 // decision nodes created (states)
	edges int64 // alternatives entered (transitions)
	paths int64
}

func newPool(workers int) *Pool {
	p := &Pool{workers: workers}
	p.cond = sync.NewCond(&p.mu)
	return p
}

func (p *Pool) put(t task) {
	p.mu.Lock()
	p.queue = append(p.queue, t)
	p.mu.Unlock()
	p.cond.Signal()
}

// get blocks until a task is available; ok=false when every worker is idle and the queue is empty.
func (p *Pool) get() (task, bool) {
	p.mu.Lock()
	defer p.mu.Unlock()
	atomic.AddInt32(&p.idle, 1)
	for len(p.queue) == 0 && !p.closed {
		if int(atomic.LoadInt32(&p.idle)) == p.workers {
			p.closed = true
			p.cond.Broadcast()
			return task{}, false
		}
		p.cond.Wait()
	}
	if len(p.queue) == 0 {
		return task{}, false
	}
	t := p.queue[len(p.queue)-1]
	p.queue = p.queue[:len(p.queue)-1]
	atomic.AddInt32(&p.idle, -1)
	return t, true
}

func (p *Pool) wantsWork() bool {
	if atomic.LoadInt32(&p.idle) == 0 {
		return false
	}
	p.mu.Lock()
	n := len(p.queue)
	p.mu.Unlock()
	return n < p.workers
}

type Explorer struct {
	pool  *Pool
	stack []dec
	pos   int

	verify   bool   // replay: every recorded decision is re-checked against the alternatives feasible in the current code
	diverged string // replay: why the recorded decisions no longer describe a path of the current code
}

func (e *Explorer) load(t task) {
	e.stack = e.stack[:0]
	for _, c := range t.prefix {
		e.stack = append(e.stack, dec{alts: []int{c.val}, label: c.label, def: c.def, frozen: true})
	}
	e.pos = 0
}

type infeasible struct{}

var debugReplay = os.Getenv("GPV_DEBUG_REPLAY") != ""

// decide returns the alternative to follow at the next decision point. feas computes the feasible
// alternatives the first time the point is met (default alternative first).
func (e *Explorer) decide(label string, feas func() []int) int {
	if e.pos < len(e.stack) {
		d := e.stack[e.pos]
		e.pos++
		if e.verify && d.frozen && label != "dpor" { // a schedule alternative is checked by the scheduler (enabledness)
			if d.label != "" && d.label != label {
				e.diverged = fmt.Sprintf("decision %d was recorded at %q and is now met at %q", e.pos-1, d.label, label)
				panic(infeasible{})
			}
			ok := false
			fa := feas()
			if debugReplay {
				fmt.Printf("replay: decision %d %s recorded=%d feasible=%v\n", e.pos-1, label, d.alts[d.cur], fa)
			}
			for _, a := range fa {
				if a == d.alts[d.cur] {
					ok = true
				}
			}
			if !ok {
				e.diverged = fmt.Sprintf("decision %d (%s): recorded alternative %d is not feasible in the current code", e.pos-1, label, d.alts[d.cur])
				panic(infeasible{})
			}
		}
		return d.alts[d.cur]
	}
	alts := feas()
	if len(alts) == 0 {
		panic(infeasible{})
	}
	e.stack = append(e.stack, dec{alts: alts, label: label, def: alts[0]})
	e.pos++
	atomic.AddInt64(&e.pool.nodes, 1)
	atomic.AddInt64(&e.pool.edges, 1)
	if label == "dpor" {
		for _, a := range alts {
			e.pool.claimed.Store(e.key(len(e.stack)-1, a), true)
		}
	}
	return alts[0]
}

func (e *Explorer) key(idx, alt int) string {
	var b strings.Builder
	for _, d := range e.stack[:idx] {
		fmt.Fprintf(&b, "%d,", d.alts[d.cur])
	}
	fmt.Fprintf(&b, "|%d", alt)
	return b.String()
}

func (e *Explorer) prefixUpTo(idx int) []choice {
	out := make([]choice, 0, idx+1)
	for _, d := range e.stack[:idx] {
		out = append(out, choice{d.label, d.alts[d.cur], d.def})
	}
	return out
}

// addAlt is used by DPOR to add a backtrack alternative at an earlier scheduling decision.
func (e *Explorer) addAlt(idx, alt int) {
	if _, dup := e.pool.claimed.LoadOrStore(e.key(idx, alt), true); dup {
		return
	}
	d := &e.stack[idx]
	if d.frozen {
		e.pool.put(task{prefix: append(e.prefixUpTo(idx), choice{d.label, alt, d.def})})
		return
	}
	d.alts = append(d.alts, alt)
}

// reversals counts the non-default scheduling choices strictly before decision idx.
func (e *Explorer) reversals(idx int) int {
	n := 0
	for j := 0; j < idx && j < len(e.stack); j++ {
		d := e.stack[j]
		if d.label == "dpor" && d.alts[d.cur] != d.def {
			n++
		}
	}
	return n
}

func (e *Explorer) labels() []string {
	out := make([]string, len(e.stack))
	for i, d := range e.stack {
		out[i] = d.label
	}
	return out
}

func (e *Explorer) decisions() []int {
	out := make([]int, len(e.stack))
	for i, d := range e.stack {
		out[i] = d.alts[d.cur]
	}
	return out
}

// advance moves to the next unexplored path of this worker's subtree; false when the subtree is done.
func (e *Explorer) advance() bool {
	atomic.AddInt64(&e.pool.paths, 1)
	// the decisions beyond pos were not reached on this path (it ended early): drop them
	if e.pos < len(e.stack) {
		e.stack = e.stack[:e.pos]
	}
	if e.pool.wantsWork() {
		e.donate()
	}
	for len(e.stack) > 0 {
		d := &e.stack[len(e.stack)-1]
		if !d.frozen && d.cur+1 < len(d.alts) {
			d.cur++
			e.pos = 0
			atomic.AddInt64(&e.pool.edges, 1)
			return true
		}
		e.stack = e.stack[:len(e.stack)-1]
	}
	return false
}

func (e *Explorer) donate() {
	for i := range e.stack {
		d := &e.stack[i]
		if d.frozen || d.cur+1 >= len(d.alts) {
			continue
		}
		// keep the one being explored; give away the rest of this level
		pre := e.prefixUpTo(i)
		for _, a := range d.alts[d.cur+1:] {
			p := append(append([]choice{}, pre...), choice{d.label, a, d.def})
			atomic.AddInt64(&e.pool.edges, 1)
			e.pool.put(task{prefix: p})
		}
		d.alts = d.alts[:d.cur+1]
		return
	}
}
