package main

import (
	"fmt"
	"os"
	"os/exec"
	"path/filepath"
	"strings"
	"time"
)

// Cross-solver agreement: a sample of the assertion queries of a run is re-discharged, as self-contained scripts, on
// the other installed solvers (z3 5.1 as z3-new, cvc5); a different answer makes the check inconclusive.
type crossQ struct {
	script string
	z3     string
	label  string
}

func (it *Interp) crossSample(neg, ans, label string) {
	r := it.res
	if r == nil {
		return
	}
	r.mu.Lock()
	defer r.mu.Unlock()
	if len(r.Cross) >= it.cfg.CrossCheck {
		return
	}
	// spread the sample: take every k-th assertion query
	if (it.assertQ+len(r.Cross))%3 != 0 && len(r.Cross) > 4 {
		return
	}
	r.Cross = append(r.Cross, crossQ{script: it.sol.script(neg), z3: ans, label: label})
}

func lastAnswer(out string) string {
	ans := ""
	for _, l := range strings.Split(out, "\n") {
		l = strings.TrimSpace(l)
		if l == "sat" || l == "unsat" || l == "unknown" {
			ans = l
		}
		if strings.HasPrefix(l, "(error") {
			return "error: " + l
		}
	}
	return ans
}

// crossCheck runs the sampled scripts on the other solvers; returns (queries compared, disagreements)
func crossCheck(results []*RunResult, dir string) (int, []string) {
	os.MkdirAll(dir, 0755)
	n := 0
	var bad []string
	solvers := [][]string{{"z3-new", "-smt2", "-T:30"}, {"cvc5", "--incremental", "--lang", "smt2", "--tlimit=30000"}}
	for _, res := range results {
		for i, q := range res.Cross {
			f := filepath.Join(dir, fmt.Sprintf("cross-%s-%d.smt2", res.Cfg.Name, i))
			os.WriteFile(f, []byte(q.script), 0644)
			for _, sv := range solvers {
				if _, err := exec.LookPath(sv[0]); err != nil {
					continue
				}
				cmd := exec.Command(sv[0], append(sv[1:], f)...)
				done := make(chan struct{})
				var out []byte
				go func() { out, _ = cmd.CombinedOutput(); close(done) }()
				select {
				case <-done:
				case <-time.After(60 * time.Second):
					cmd.Process.Kill()
					<-done
				}
				a := lastAnswer(string(out))
				n++
				if a != q.z3 {
					bad = append(bad, fmt.Sprintf("%s on %q (run %s): z3 4.8.12 says %s, %s says %q", filepath.Base(f), q.label, res.Cfg.Name, q.z3, sv[0], a))
				}
			}
			os.Remove(f)
		}
	}
	return n, bad
}
