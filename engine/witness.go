package main

import (
	"fmt"
	"sort"
	"strconv"
	"strings"
)

// concretize turns the attribute model of the abstract strings into real Go strings. The result is what a native
// replay feeds to the real code; tokens of the form @NAME@ stand for values only the replay can make (a real
// certificate). Every choice below realises the attributes the solver fixed (literal equality, atoi_ok/atoi_val,
// length, the uninterpreted predicates of the models).
func (it *Interp) concretize(w map[string]interface{}) map[string]string {
	out := map[string]string{}
	fields, _ := w["strings"].(map[string]map[string]interface{})
	bv := func(s string) int64 {
		s = strings.TrimSpace(s)
		if strings.HasPrefix(s, "#x") {
			u, _ := strconv.ParseUint(s[2:], 16, 64)
			return int64(u)
		}
		if strings.HasPrefix(s, "#b") {
			u, _ := strconv.ParseUint(s[2:], 2, 64)
			return int64(u)
		}
		return 0
	}
	used := map[string]bool{}
	for l := range it.lits {
		used[l] = true
	}
	conc := func(f string) string {
		fm := fields[f]
		if fm == nil {
			return ""
		}
		if l, ok := fm["lit"].(string); ok {
			return l
		}
		n := int(bv(fmt.Sprint(fm["len"])))
		if n > 1<<20 {
			n = 1 << 20
		}
		is := func(k string) bool { return fmt.Sprint(fm[k]) == "true" }
		if is("atoi_ok") {
			v := bv(fmt.Sprint(fm["atoi_val"]))
			s := strconv.FormatInt(v, 10)
			neg := strings.HasPrefix(s, "-")
			if neg {
				s = s[1:]
			}
			for len(s)+b2i(neg) < n {
				s = "0" + s
			}
			if neg {
				s = "-" + s
			}
			return s
		}
		if is("uf_x509") && is("uf_b64") {
			return "@CERT@"
		}
		if is("uf_resolve_tcp") {
			return "127.0.0.1:1234"
		}
		if _, has := fm["uf_resolve_tcp"]; has && !is("uf_resolve_tcp") && !is("uf_b64") && n < 40 {
			return "no-such-addr:xx:yy"
		}
		fill := "x"
		if _, has := fm["uf_b64"]; has {
			if is("uf_b64") {
				fill = "A"
			} else {
				fill = "!"
			}
		}
		s := strings.Repeat(fill, n)
		for used[s] && n > 0 { // must not collide with a literal the path distinguishes it from
			fill = string(rune(fill[0] + 1))
			s = strings.Repeat(fill, n)
		}
		return s
	}
	var names []string
	for f := range fields {
		names = append(names, f)
	}
	sort.Strings(names)
	for _, f := range names {
		out[f] = conc(f)
	}
	for name, l := range it.lines {
		n := 1
		if ns, ok := l.N.(*Sym); ok {
			n = int(bv(fmt.Sprint(w[ns.T])))
		}
		if n < 1 {
			n = 1
		}
		if n > len(l.Fields) {
			n = len(l.Fields)
		}
		var parts []string
		for _, f := range l.Fields[:n] {
			parts = append(parts, out[f])
		}
		out["line:"+name] = strings.Join(parts, l.Sep)
	}
	return out
}

func b2i(b bool) int {
	if b {
		return 1
	}
	return 0
}
