package main

import (
	"crypto/sha256"
	"fmt"
	"os"
	"os/exec"
	"path/filepath"
	"regexp"
	"strings"

	"golang.org/x/tools/go/packages"
	"golang.org/x/tools/go/ssa"
	"golang.org/x/tools/go/ssa/ssautil"
)

var repoDir = "/repo"
var verifDir = "/verif"
var outDir = "" // where evidence and replays of the last run go (default: verifDir); VERIF_OUT redirects scratch runs

func init() {
	if d := os.Getenv("VERIF_REPO"); d != "" {
		repoDir = d
	}
	if d := os.Getenv("VERIF_DIR"); d != "" {
		verifDir = d
	}
	outDir = verifDir
	if d := os.Getenv("VERIF_OUT"); d != "" {
		outDir = d
	}
}

// goEnv returns the environment for every `go` invocation made on behalf of /repo: the toolchain that
// /repo/go.mod asks for is taken from the module cache (no network), and nothing may be fetched.
func goEnv() []string {
	env := os.Environ()
	want := ""
	if b, err := os.ReadFile(filepath.Join(repoDir, "go.mod")); err == nil {
		if m := regexp.MustCompile(`(?m)^go\s+([0-9.]+)`).FindSubmatch(b); m != nil {
			want = string(m[1])
		}
	}
	path := os.Getenv("PATH")
	if want != "" {
		v := want
		if strings.Count(v, ".") == 1 {
			v += ".0"
		}
		home, _ := os.UserHomeDir()
		for _, mc := range []string{os.Getenv("GOMODCACHE"), filepath.Join(os.Getenv("GOPATH"), "pkg/mod"), filepath.Join(home, "go/pkg/mod")} {
			if mc == "" {
				continue
			}
			d := filepath.Join(mc, "golang.org", "toolchain@v0.0.1-go"+v+".linux-amd64", "bin")
			if _, err := os.Stat(filepath.Join(d, "go")); err == nil {
				path = d + ":" + path
				break
			}
		}
	}
	os.Setenv("PATH", path) // exec.LookPath("go") in go/packages consults this process's PATH
	set := map[string]string{"PATH": path, "GOFLAGS": "-mod=mod", "GOPROXY": "off", "GOSUMDB": "off", "GOTOOLCHAIN": "local"}
	var out []string
	for _, e := range env {
		k := e[:strings.Index(e+"=", "=")]
		if _, ok := set[k]; !ok {
			out = append(out, e)
		}
	}
	for k, v := range set {
		out = append(out, k+"="+v)
	}
	return out
}

func goCmd(dir string, args ...string) *exec.Cmd {
	env := goEnv()
	bin := "go"
	for _, e := range env {
		if strings.HasPrefix(e, "PATH=") {
			for _, d := range strings.Split(e[5:], ":") {
				if _, err := os.Stat(filepath.Join(d, "go")); err == nil {
					bin = filepath.Join(d, "go")
					break
				}
			}
		}
	}
	c := exec.Command(bin, args...)
	c.Dir = dir
	c.Env = env
	return c
}

type Program struct {
	prog     *ssa.Program
	pkg      *ssa.Package
	models   map[string]string // static callee -> harness function that replaces it
	srcHash  map[string]string // /repo source file -> sha256 (first 12 hex)
	overlays map[string]string
}

// loadProgram loads /repo's current working tree with the given harness files overlaid into package plugin.
// extra maps a /repo path to a replacement file (used by selftests with mutated sources).
func loadProgram(harnessFiles []string, extra map[string]string) (*Program, error) {
	ov := map[string][]byte{}
	models := map[string]string{}
	p := &Program{models: models, srcHash: map[string]string{}, overlays: map[string]string{}}
	for _, f := range harnessFiles {
		b, err := os.ReadFile(f)
		if err != nil {
			return nil, err
		}
		virt := filepath.Join(repoDir, "zz_verif_"+strings.TrimSuffix(filepath.Base(f), filepath.Ext(f))+".go")
		ov[virt] = b
		p.overlays[virt] = f
		lines := strings.Split(string(b), "\n")
		for i, l := range lines {
			if strings.HasPrefix(l, "//verif:model ") && i+1 < len(lines) {
				target := strings.TrimSpace(strings.TrimPrefix(l, "//verif:model "))
				fnl := strings.TrimPrefix(lines[i+1], "func ")
				if k := strings.Index(fnl, "("); k > 0 {
					models[target] = fnl[:k]
				}
			}
		}
	}
	for virt, real := range extra {
		b, err := os.ReadFile(real)
		if err != nil {
			return nil, err
		}
		ov[virt] = b
	}
	cfg := &packages.Config{Mode: packages.LoadAllSyntax, Dir: repoDir, Env: goEnv(), Overlay: ov}
	pkgs, err := packages.Load(cfg, ".")
	if err != nil {
		return nil, err
	}
	var errs []string
	packages.Visit(pkgs, nil, func(pk *packages.Package) {
		for _, e := range pk.Errors {
			errs = append(errs, e.Error())
		}
	})
	if len(errs) > 0 {
		if len(errs) > 12 {
			errs = errs[:12]
		}
		return nil, fmt.Errorf("load errors:\n  %s", strings.Join(errs, "\n  "))
	}
	prog, spkgs := ssautil.AllPackages(pkgs, ssa.InstantiateGenerics)
	prog.Build()
	p.prog, p.pkg = prog, spkgs[0]
	for _, pk := range pkgs {
		for _, f := range pk.GoFiles {
			if b, err := os.ReadFile(f); err == nil {
				p.srcHash[f] = fmt.Sprintf("%x", sha256.Sum256(b))[:12]
			}
		}
	}
	packages.Visit(pkgs, nil, func(pk *packages.Package) {
		if strings.HasPrefix(pk.PkgPath, "github.com/hashicorp/go-plugin") {
			for _, f := range pk.GoFiles {
				if b, err := os.ReadFile(f); err == nil {
					p.srcHash[f] = fmt.Sprintf("%x", sha256.Sum256(b))[:12]
				}
			}
		}
	})
	return p, nil
}
