package plugin

import (
	"github.com/hashicorp/go-plugin/internal/plugin"
	"google.golang.org/grpc"
)


//verif:model (*google.golang.org/grpc.Server).Stop
func mServerStop(s *grpc.Server) {}

type vStreamer struct{ closed int }

func (s *vStreamer) Send(i *plugin.ConnInfo) error    { return nil }
func (s *vStreamer) Recv() (*plugin.ConnInfo, error) { return nil, nil }
func (s *vStreamer) Close()                          { s.closed++ }

// Two concurrent shutdown requests (two concurrent Client.Kill calls produce exactly this on the plugin).
func harnessC20stop() {
	srv := &GRPCServer{server: new(grpc.Server)}
	srv.broker = newGRPCBroker(&vStreamer{}, nil, UnixSocketConfig{}, nil, nil)
	done := make(chan struct{}, 2)
	for i := 0; i < 2; i++ {
		go func() { srv.Stop(); done <- struct{}{} }()
	}
	<-done
	<-done
	vCover("both-stopped")
	vDone()
}

// control: the broker's own close-once guard, two concurrent Close calls
func harnessC20close() {
	b := newGRPCBroker(&vStreamer{}, nil, UnixSocketConfig{}, nil, nil)
	done := make(chan struct{}, 2)
	for i := 0; i < 2; i++ {
		go func() { b.Close(); done <- struct{}{} }()
	}
	<-done
	<-done
	vCover("both-closed")
	vDone()
}

// NextId: from an arbitrary counter value, ids handed out - sequentially and from two goroutines at once - are distinct
func harnessC20nextid() {
	n0 := vNondetU32("n0")
	gb := newGRPCBroker(&vStreamer{}, nil, UnixSocketConfig{}, nil, nil)
	gb.nextId = n0
	mb := &MuxBroker{nextId: n0}
	var g [4]uint32
	var m [4]uint32
	done := make(chan struct{}, 2)
	go func() { g[0] = gb.NextId(); m[0] = mb.NextId(); g[1] = gb.NextId(); m[1] = mb.NextId(); done <- struct{}{} }()
	go func() { g[2] = gb.NextId(); m[2] = mb.NextId(); g[3] = gb.NextId(); m[3] = mb.NextId(); done <- struct{}{} }()
	<-done
	<-done
	// the same fact is registered under the properties it underpins (two Dispense calls, or two brokered connections,
	// outstanding at once must not be given one ID): the label names the property of the check that runs it
	lg, lm := "C20: GRPCBroker.NextId never returns the same ID twice", "C20: MuxBroker.NextId never returns the same ID twice"
	switch vParam("as") {
	case 6:
		lm = "C06: concurrently outstanding net/rpc dispenses get distinct IDs (MuxBroker.NextId)"
	case 7:
		lg = "C07: concurrently outstanding brokered connections get distinct IDs (GRPCBroker.NextId)"
	}
	for i := 0; i < 4; i++ {
		for j := i + 1; j < 4; j++ {
			vAssert(g[i] != g[j], lg)
			vAssert(m[i] != m[j], lm)
		}
	}
	vCover("ids-distinct")
	vDone()
}
