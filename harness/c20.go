package plugin

import (
	"github.com/hashicorp/go-plugin/internal/plugin"
	"google.golang.org/grpc"
)


//verif:model (*google.golang.org/grpc.Server).Stop
func mServerStop(s *grpc.Server) {}

type vStreamer struct{ closed int }

func (s *vStreamer) Send(i *plugin.ConnInfo) error    { return nil }
func (s *vStreamer) Recv() (*plugin.ConnInfo, error) { return nil, nil }
func (s *vStreamer) Close()                          { s.closed++ }

// Two concurrent shutdown requests (two concurrent Client.Kill calls produce exactly this on the plugin).
func harnessC20stop() {
	srv := &GRPCServer{server: new(grpc.Server)}
	srv.broker = newGRPCBroker(&vStreamer{}, nil, UnixSocketConfig{}, nil, nil)
	done := make(chan struct{}, 2)
	for i := 0; i < 2; i++ {
		go func() { srv.Stop(); done <- struct{}{} }()
	}
	<-done
	<-done
	vCover("both-stopped")
	vDone()
}

// control: the broker's own close-once guard, two concurrent Close calls
func harnessC20close() {
	b := newGRPCBroker(&vStreamer{}, nil, UnixSocketConfig{}, nil, nil)
	done := make(chan struct{}, 2)
	for i := 0; i < 2; i++ {
		go func() { b.Close(); done <- struct{}{} }()
	}
	<-done
	<-done
	vCover("both-closed")
	vDone()
}
