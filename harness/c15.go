package plugin

import (
	"bufio"
	"context"
	"crypto/tls"
	"crypto/x509"
	"encoding/base64"
	"errors"
	"io"
	"log"
	"net"
	"os/exec"
	"strconv"
	"os"
	"syscall"
	"time"

	hclog "github.com/hashicorp/go-hclog"
	"github.com/hashicorp/go-plugin/runner"
	"github.com/hashicorp/yamux"
	"google.golang.org/grpc"
)


// ---------------- process / runner model ----------------
type vProc struct {
	mode    int // 0 line at tLine, 1 stdout EOF at tLine while alive, 2 silent, 3 dies at tLine before output
	line    string
	tLine   int64
	dead    chan struct{}
	isDead  bool
	started int
	killed  int
}

func (p *vProc) die() {
	if !p.isDead {
		p.isDead = true
		close(p.dead)
	}
}

type vPipe struct{ p *vProc }

func (*vPipe) Read(b []byte) (int, error) { return 0, io.EOF }
func (*vPipe) Close() error               { return nil }

type vRunner struct{ p *vProc }

func (r *vRunner) Start(ctx context.Context) error {
	r.p.started++
	if r.p.mode == 3 {
		go func() { vDaemon(); vSleepUntil(r.p.tLine); r.p.die() }()
	}
	return nil
}
func (r *vRunner) Diagnose(ctx context.Context) string { return "" }
func (r *vRunner) Stdout() io.ReadCloser               { return &vPipe{r.p} }
func (r *vRunner) Stderr() io.ReadCloser               { return &vPipe{r.p} }
func (r *vRunner) Name() string                        { return "vplugin" }
func (r *vRunner) Wait(ctx context.Context) error      { <-r.p.dead; return nil }
func (r *vRunner) Kill(ctx context.Context) error      { r.p.killed++; r.p.die(); return nil }
func (r *vRunner) ID() string                          { return "v1" }
func (r *vRunner) PluginToHost(n, a string) (string, string, error) { return n, a, nil }
func (r *vRunner) HostToPlugin(n, a string) (string, string, error) { return n, a, nil }

// ---------------- bufio models ----------------
type scanGhost struct {
	p         *vProc
	delivered bool
	text      string
}

var scanG = map[*bufio.Scanner]*scanGhost{}
var readerG = map[*bufio.Reader]*vProc{}

//verif:model bufio.NewScanner
func mNewScanner(r io.Reader) *bufio.Scanner {
	s := new(bufio.Scanner)
	scanG[s] = &scanGhost{p: r.(*vPipe).p}
	return s
}

//verif:model (*bufio.Scanner).Scan
func mScan(s *bufio.Scanner) bool {
	g := scanG[s]
	if !g.delivered {
		g.delivered = true
		switch g.p.mode {
		case 0:
			vSleepUntil(g.p.tLine)
			g.text = g.p.line
			return true
		case 1:
			vSleepUntil(g.p.tLine)
			return false
		}
	}
	<-g.p.dead
	return false
}

//verif:model (*bufio.Scanner).Text
func mText(s *bufio.Scanner) string { return scanG[s].text }

//verif:model (*bufio.Scanner).Err
func mErr(s *bufio.Scanner) error { return nil }

//verif:model bufio.NewReaderSize
func mNewReaderSize(r io.Reader, n int) *bufio.Reader {
	b := new(bufio.Reader)
	readerG[b] = r.(*vPipe).p
	return b
}

//verif:model (*bufio.Reader).ReadLine
func mReadLine(b *bufio.Reader) ([]byte, bool, error) {
	<-readerG[b].dead
	return nil, false, io.EOF
}

// ---------------- context model ----------------
type vCtx struct {
	done   chan struct{}
	closed bool
}

func (c *vCtx) Deadline() (time.Time, bool) { return time.Time{}, false }
func (c *vCtx) Done() <-chan struct{}       { return c.done }
func (c *vCtx) Err() error {
	if c.closed {
		return context.Canceled
	}
	return nil
}
func (c *vCtx) Value(k any) any { return nil }

//verif:model context.Background
func mBackground() context.Context { return &vCtx{} }

//verif:model context.WithCancel
func mWithCancel(parent context.Context) (context.Context, context.CancelFunc) {
	c := &vCtx{done: make(chan struct{})}
	return c, func() {
		if !c.closed {
			c.closed = true
			close(c.done)
		}
	}
}

//verif:model context.WithTimeout
func mWithTimeout(parent context.Context, d time.Duration) (context.Context, context.CancelFunc) {
	return mWithCancel(parent)
}

// ---------------- os / net / crypto models ----------------
//verif:model os.Environ
func mEnviron() []string { return []string{"HOSTVAR=1"} }

//verif:model os.MkdirTemp
func mMkdirTemp(dir, pattern string) (string, error) { return "/tmp/plugin-dir-v", nil }

//verif:model os.RemoveAll
func mRemoveAll(path string) error { return nil }

//verif:model net.ResolveTCPAddr
func mResolveTCP(network, address string) (*net.TCPAddr, error) {
	if vNondetOK("resolve_tcp", address) {
		return &net.TCPAddr{Port: 1}, nil
	}
	return nil, errors.New("resolve tcp")
}

//verif:model net.ResolveUnixAddr
func mResolveUnix(network, address string) (*net.UnixAddr, error) {
	return &net.UnixAddr{Name: address, Net: "unix"}, nil // never fails for network "unix" (net/unixsock.go)
}

var lastB64 string

//verif:model crypto/x509.NewCertPool
func mNewCertPool() *x509.CertPool { return new(x509.CertPool) }

//verif:model (*encoding/base64.Encoding).DecodeString
func mDecodeString(e *base64.Encoding, s string) ([]byte, error) {
	if vNondetOK("b64", s) {
		lastB64 = s
		return []byte{1}, nil
	}
	return nil, errors.New("b64")
}

//verif:model crypto/x509.ParseCertificate
func mParseCertificate(der []byte) (*x509.Certificate, error) {
	if vNondetOK("x509", lastB64) {
		return new(x509.Certificate), nil
	}
	return nil, errors.New("x509")
}

//verif:model (*crypto/x509.CertPool).AddCert
func mAddCert(p *x509.CertPool, c *x509.Certificate) {}

// ---------------- logger ----------------
type vLogger struct{}

func (vLogger) Log(level hclog.Level, msg string, args ...interface{}) {}
func (vLogger) Trace(msg string, args ...interface{})                   {}
func (vLogger) Debug(msg string, args ...interface{})                   {}
func (vLogger) Info(msg string, args ...interface{})                    {}
func (vLogger) Warn(msg string, args ...interface{})                    {}
func (vLogger) Error(msg string, args ...interface{})                   {}
func (vLogger) IsTrace() bool                                           { return false }
func (vLogger) IsDebug() bool                                           { return false }
func (vLogger) IsInfo() bool                                            { return false }
func (vLogger) IsWarn() bool                                            { return false }
func (vLogger) IsError() bool                                           { return false }
func (vLogger) ImpliedArgs() []interface{}                              { return nil }
func (l vLogger) With(args ...interface{}) hclog.Logger                 { return l }
func (vLogger) Name() string                                            { return "v" }
func (l vLogger) Named(name string) hclog.Logger                        { return l }
func (l vLogger) ResetNamed(name string) hclog.Logger                   { return l }
func (vLogger) SetLevel(level hclog.Level)                              {}
func (vLogger) StandardLogger(o *hclog.StandardLoggerOptions) *log.Logger { return nil }
func (vLogger) StandardWriter(o *hclog.StandardLoggerOptions) io.Writer { return nil }


// ---------------- process table / net for reattach ----------------
type vOSProc struct{ alive bool }

var procs = map[*os.Process]*vOSProc{}
var thePlugin = &vOSProc{alive: true}
var listening bool
var sigErr = errors.New("os: process already finished")

//verif:model os.FindProcess
func mFindProcess(pid int) (*os.Process, error) {
	p := new(os.Process)
	procs[p] = thePlugin
	return p, nil
}

//verif:model (*os.Process).Signal
func mSignal(p *os.Process, sig os.Signal) error {
	if procs[p].alive {
		return nil
	}
	return sigErr
}

//verif:model (*os.Process).Kill
func mProcKill(p *os.Process) error { procs[p].alive = false; listening = false; return nil }

type vAddr struct{}

func (vAddr) Network() string { return "unix" }
func (vAddr) String() string  { return "/tmp/plugin-sock" }

type vNetConn struct{ net.Conn }

func (vNetConn) Close() error { return nil }

//verif:model net.Dial
func mDial(network, address string) (net.Conn, error) {
	if listening {
		return vNetConn{}, nil
	}
	return nil, errors.New("connect: connection refused")
}

var _ = syscall.Signal(0)

// In this run the reattached plugin does not answer the graceful-shutdown attempt: the connection for the
// protocol client cannot be established, so Kill takes its force path (the graceful path is C04's subject).
//verif:model github.com/hashicorp/yamux.Client
func mYamuxClient(conn io.ReadWriteCloser, cfg *yamux.Config) (*yamux.Session, error) {
	return nil, errors.New("session shutdown")
}

//verif:model google.golang.org/grpc.Dial
func mGrpcDial(target string, opts ...grpc.DialOption) (*grpc.ClientConn, error) {
	return nil, errors.New("connection refused")
}

// wTimedC15 runs f and reports whether it panicked
func wTimedC15(f func()) (panicked bool) {
	panicked = true
	func() {
		defer func() { recover() }()
		f()
		panicked = false
	}()
	return
}

func harnessC15() {
	listening = vChoice(2) == 1
	thePlugin.alive = listening
	var proto Protocol
	switch vChoice(3) {
	case 1:
		proto = ProtocolNetRPC
	case 2:
		proto = ProtocolGRPC
	}
	test := vChoice(2) == 1
	var allowed []Protocol
	switch vChoice(3) {
	case 1:
		allowed = []Protocol{ProtocolGRPC}
	case 2:
		allowed = []Protocol{ProtocolNetRPC, ProtocolGRPC}
	}
	addr := vAddr{}
	cfg := &ClientConfig{
		HandshakeConfig:  HandshakeConfig{ProtocolVersion: 1, MagicCookieKey: "K", MagicCookieValue: "V"},
		Plugins:          PluginSet{},
		AllowedProtocols: allowed,
		Logger:           vLogger{},
		Reattach:         &ReattachConfig{Protocol: proto, Addr: addr, Pid: 4242, Test: test},
	}
	c := NewClient(cfg)
	got, err := c.Start()
	if !listening {
		vCover("nothing-listening")
		vAssert(errors.Is(err, ErrProcessNotFound), "C15: reattach with nothing listening fails with the process-not-found error")
		vDone()
	}
	want0 := proto
	if want0 == "" {
		want0 = ProtocolNetRPC
	}
	allowedOK := false
	for _, a := range c.config.AllowedProtocols {
		if a == want0 {
			allowedOK = true
		}
	}
	if !allowedOK {
		vCover("refused-protocol")
		vAssert(err != nil, "C14: the client never speaks a protocol outside its allowed list (reattach)")
		// the refusal is final: a second call on the same client does not turn it into a success
		_, err2 := c.Start()
		vAssert(err2 != nil, "C14: the client never speaks a protocol outside its allowed list (reattach, second Start after the refusal)")
		r := wTimedC15(func() { c.Client() })
		vAssert(!r, "C14: Client() after a refused reattach does not panic")
		_, err3 := c.Client()
		vAssert(err3 != nil, "C14: no protocol client is handed out after a refused reattach")
		vAssert(c.Protocol() == ProtocolInvalid, "C14: no protocol is reported after a refused reattach")
		c.Kill() // e.g. the caller's deferred Kill, or CleanupClients
		if test {
			vCover("refused-then-kill-test-mode")
			vAssert(thePlugin.alive, "C15: in test mode Kill leaves the serving process running (client whose reattach was refused)")
		}
		vDone()
	}
	vCover("reattached")
	vAssert(err == nil, "C15: reattach to a listening plugin succeeds")
	vAssert(got == net.Addr(addr), "C15: the reattached client uses the running plugin's address")
	want := proto
	if want == "" {
		want = ProtocolNetRPC
	}
	vAssert(c.protocol == want, "C15: the reattached client uses the running plugin's protocol")
	ok := false
	for _, a := range c.config.AllowedProtocols {
		if a == c.protocol {
			ok = true
		}
	}
	vAssert(ok, "C14: the client never speaks a protocol outside its allowed list (reattach)")
	rc := c.ReattachConfig()
	vAssert(rc != nil && rc.Addr == net.Addr(addr) && rc.Pid == 4242, "C15: ReattachConfig hands the same plugin on")
	killed := make(chan struct{})
	go func() { c.Kill(); close(killed) }()
	select {
	case <-killed:
	case <-time.After(60 * time.Second):
		vAssert(false, "C15: Kill on the reattached client terminates that plugin (and returns) within a bounded time")
	}
	if test {
		vCover("test-mode")
		vAssert(thePlugin.alive, "C15: in test mode Kill leaves the serving process running")
	} else {
		vCover("real-process")
		vAssert(!thePlugin.alive, "C15: Kill on the reattached client terminates that plugin")
		vAssert(c.Exited(), "C15: and the client reports it as exited")
	}
	vDone()
}

var _ = strconv.Itoa
var _ = x509.NewCertPool
var _ = base64.StdEncoding
var _ = log.Printf
var _ = tls.VersionTLS12
var _ = exec.Command
var _ runner.Runner
