package plugin

import (
	"google.golang.org/grpc"
	"google.golang.org/grpc/credentials"
	"google.golang.org/grpc/metadata"
	"github.com/hashicorp/go-plugin/internal/plugin"
	"context"
	"crypto/tls"
	"crypto/x509"
	"encoding/base64"
	"fmt"
	"io"
	"log"
	"net"
	"os"
	"os/signal"
	"time"

	hclog "github.com/hashicorp/go-hclog"
	"github.com/hashicorp/go-plugin/runner"
)


type vPlugNet struct{ NetRPCUnsupportedPlugin }

// ---------- process ghost ----------
var (
	exited   bool
	exitCode int
	stdout   []string
	events   []string
	files    = map[string]bool{} // ghost file system
	nTemp    int
)

//verif:model os.Exit
func mExit(code int) { exited = true; exitCode = code; vExitThread() }

//verif:model fmt.Printf
func mPrintf(format string, a ...any) (int, error) {
	stdout = append(stdout, fmt.Sprintf(format, a...))
	events = append(events, "print")
	return 0, nil
}

var tempName = map[*os.File]string{}

//verif:model os.CreateTemp
func mCreateTemp(dir, pattern string) (*os.File, error) {
	f := new(os.File)
	nTemp++
	name := fmt.Sprintf("%s/%s%d", dir, pattern, nTemp)
	tempName[f] = name
	files[name] = true
	return f, nil
}

//verif:model (*os.File).Name
func mFileName(f *os.File) string { return tempName[f] }

//verif:model (*os.File).Close
func mFileClose(f *os.File) error { return nil }

//verif:model os.Remove
func mRemove(name string) error { delete(files, name); return nil }

//verif:model os.Pipe
func mPipe() (*os.File, *os.File, error) { return new(os.File), new(os.File), nil }

//verif:model os/signal.Notify
func mNotify(c chan<- os.Signal, sig ...os.Signal) {}

var _ = signal.Notify

type vAddr struct{ path string }

func (a vAddr) Network() string { return "unix" }
func (a vAddr) String() string  { return a.path }

type vListener struct {
	path   string
	q      chan net.Conn
	closed bool
	owner  int // process that listens (0 host, 1 plugin)
}

// With a custom runner host and plugin may live in different file-system namespaces: a path of the plugin is visible
// on the host under /host, a path of the host is visible to the plugin under /plug. The runner's address translator
// (PluginToHost / HostToPlugin) is what maps one to the other.
var namespaces bool

type vXlate struct{}

func (vXlate) PluginToHost(n, a string) (string, string, error) { return n, "/host" + a, nil }
func (vXlate) HostToPlugin(n, a string) (string, string, error) { return n, "/plug" + a, nil }

func visiblePath(l *vListener, from int) string {
	if !namespaces || l.owner == from {
		return l.path
	}
	if from == 0 {
		return "/host" + l.path
	}
	return "/plug" + l.path
}

func (l *vListener) Accept() (net.Conn, error) { c := <-l.q; return c, nil }
func (l *vListener) Close() error              { l.closed = true; return nil }
func (l *vListener) Addr() net.Addr            { return vAddr{l.path} }

var listeners []*vListener

//verif:model net.Listen
func mListen(network, address string) (net.Listener, error) {
	l := &vListener{path: address, q: make(chan net.Conn, 1), owner: vCurProc()}
	listeners = append(listeners, l)
	files[address] = true
	events = append(events, "listen")
	return l, nil
}

// ---------- context ----------
type vCtx struct{}

func (vCtx) Deadline() (time.Time, bool) { return time.Time{}, false }
func (vCtx) Done() <-chan struct{}       { return nil }
func (vCtx) Err() error                  { return nil }
func (vCtx) Value(k any) any             { return nil }

//verif:model context.Background
func mBackground() context.Context { return vCtx{} }

// ---------- crypto (opaque) ----------
//verif:model github.com/hashicorp/go-plugin.generateCert
func mGenerateCert() ([]byte, []byte, error) { return []byte("CERTPEM"), []byte("KEYPEM"), nil }

//verif:model crypto/tls.X509KeyPair
func mX509KeyPair(c, k []byte) (tls.Certificate, error) {
	return tls.Certificate{Certificate: [][]byte{[]byte("DER")}}, nil
}

//verif:model crypto/x509.NewCertPool
func mNewCertPool() *x509.CertPool { return new(x509.CertPool) }

//verif:model (*crypto/x509.CertPool).AppendCertsFromPEM
func mAppendCerts(p *x509.CertPool, pem []byte) bool { return true }

//verif:model (*encoding/base64.Encoding).EncodeToString
func mEncodeToString(e *base64.Encoding, b []byte) string { return "B64(" + string(b) + ")" }

// ---------- logger ----------
type vLogger struct{}

func (vLogger) Log(level hclog.Level, msg string, args ...interface{}) {}
func (vLogger) Trace(msg string, args ...interface{})                   {}
func (vLogger) Debug(msg string, args ...interface{})                   {}
func (vLogger) Info(msg string, args ...interface{})                    {}
func (vLogger) Warn(msg string, args ...interface{})                    {}
func (vLogger) Error(msg string, args ...interface{})                   {}
func (vLogger) IsTrace() bool                                           { return false }
func (vLogger) IsDebug() bool                                           { return false }
func (vLogger) IsInfo() bool                                            { return false }
func (vLogger) IsWarn() bool                                            { return false }
func (vLogger) IsError() bool                                           { return false }
func (vLogger) ImpliedArgs() []interface{}                              { return nil }
func (l vLogger) With(args ...interface{}) hclog.Logger                 { return l }
func (vLogger) Name() string                                            { return "v" }
func (l vLogger) Named(name string) hclog.Logger                        { return l }
func (l vLogger) ResetNamed(name string) hclog.Logger                   { return l }
func (vLogger) SetLevel(level hclog.Level)                              {}
func (vLogger) StandardLogger(o *hclog.StandardLoggerOptions) *log.Logger { return nil }
func (vLogger) StandardWriter(o *hclog.StandardLoggerOptions) io.Writer { return nil }


// ---------- net: dial by address ----------
type vNetConn struct {
	net.Conn
	peer *vNetConn
}

//verif:model net.ResolveUnixAddr
func mResolveUnix(network, address string) (*net.UnixAddr, error) { return &net.UnixAddr{Name: address, Net: "unix"}, nil }

//verif:model net.Dial
func mDial(network, address string) (net.Conn, error) {
	for _, l := range listeners {
		if visiblePath(l, vCurProc()) == address && !l.closed {
			a, b := &vNetConn{}, &vNetConn{}
			a.peer, b.peer = b, a
			l.q <- b
			return a, nil
		}
	}
	return nil, io.ErrClosedPipe
}

// ---------- gRPC: dial records its dialer; the bidirectional broker stream is a FIFO pair ----------
type connGhost struct{ dialer func(string, time.Duration) (net.Conn, error) }

var connG = map[*grpc.ClientConn]*connGhost{}
var lastDialer func(string, time.Duration) (net.Conn, error)

//verif:model google.golang.org/grpc.WithDialer
func mWithDialer(f func(string, time.Duration) (net.Conn, error)) grpc.DialOption { lastDialer = f; return nil }

//verif:model google.golang.org/grpc.FailOnNonTempDialError
func mFailOnNonTemp(b bool) grpc.DialOption { return nil }

//verif:model google.golang.org/grpc.WithInsecure
func mWithInsecure() grpc.DialOption { return nil }

//verif:model google.golang.org/grpc.WithTransportCredentials
func mWithTransportCredentials(c credentials.TransportCredentials) grpc.DialOption { return nil }

//verif:model google.golang.org/grpc.WithDefaultCallOptions
func mWithDefaultCallOptions(o ...grpc.CallOption) grpc.DialOption { return nil }

//verif:model google.golang.org/grpc.MaxCallRecvMsgSize
func mMaxRecv(n int) grpc.CallOption { return nil }

//verif:model google.golang.org/grpc.MaxCallSendMsgSize
func mMaxSend(n int) grpc.CallOption { return nil }

//verif:model google.golang.org/grpc.Dial
func mGrpcDial(target string, opts ...grpc.DialOption) (*grpc.ClientConn, error) {
	c := new(grpc.ClientConn)
	connG[c] = &connGhost{dialer: lastDialer}
	return c, nil
}

type vStreamBase struct{ ctx context.Context }

func (s *vStreamBase) Context() context.Context     { return s.ctx }
func (s *vStreamBase) SendMsg(m interface{}) error  { return nil }
func (s *vStreamBase) RecvMsg(m interface{}) error  { return nil }
func (s *vStreamBase) Header() (metadata.MD, error) { return nil, nil }
func (s *vStreamBase) Trailer() metadata.MD         { return nil }
func (s *vStreamBase) CloseSend() error             { return nil }
func (s *vStreamBase) SetHeader(metadata.MD) error  { return nil }
func (s *vStreamBase) SendHeader(metadata.MD) error { return nil }
func (s *vStreamBase) SetTrailer(metadata.MD)       {}

type vBidi struct {
	vStreamBase
	out, in chan *plugin.ConnInfo
}

func (s *vBidi) Send(i *plugin.ConnInfo) error    { s.out <- vClone(i).(*plugin.ConnInfo); return nil } // marshalled: the peer gets a copy
func (s *vBidi) Recv() (*plugin.ConnInfo, error) { return <-s.in, nil }

// the untyped forms of the same operations (what the generated Recv/Send are built on)
func (s *vBidi) RecvMsg(m interface{}) error {
	i := <-s.in
	vCopyInto(m, i)
	return nil
}
func (s *vBidi) SendMsg(m interface{}) error {
	s.out <- vClone(m).(*plugin.ConnInfo)
	return nil
}

type vBrokerClient struct{ h2p, p2h chan *plugin.ConnInfo }

func (c vBrokerClient) StartStream(ctx context.Context, opts ...grpc.CallOption) (plugin.GRPCBroker_StartStreamClient, error) {
	return &vBidi{vStreamBase{ctx}, c.h2p, c.p2h}, nil
}

type doneCtx struct{ vCtx }

//verif:model context.WithCancel
func mWithCancel(parent context.Context) (context.Context, context.CancelFunc) { return parent, func() {} }

const sec = int64(1000000000)

// Two IDs: ID a accepted on the plugin and dialled from the host, ID b the other way round,
// each pair within the pending window, either order; the real stream pumps on both sides.
func harnessC07() {
	h2p, p2h := make(chan *plugin.ConnInfo, 8), make(chan *plugin.ConnInfo, 8)
	// host side: the real client pump
	hs := &gRPCBrokerClientImpl{client: vBrokerClient{h2p, p2h}, send: make(chan *sendErr), recv: make(chan *plugin.ConnInfo), quit: make(chan struct{})}
	go func() { vDaemon(); hs.StartStream() }()
	// plugin side: the real server pump
	ps := newGRPCBrokerServer()
	go func() { vDaemon(); ps.StartStream(&vBidi{vStreamBase{vCtx{}}, p2h, h2p}) }()
	var xl runner.AddrTranslator
	if vChoice(2) == 1 {
		vCover("translated-addresses")
		namespaces = true
		xl = vXlate{}
	}
	hb := newGRPCBroker(hs, nil, UnixSocketConfig{}, xl, nil2())
	pb := newGRPCBroker(ps, nil, UnixSocketConfig{}, nil, nil2())
	go func() { vDaemon(); hb.Run() }()
	go func() { vDaemon(); vSetProc(1); pb.Run() }()

	a, b := vNondetU32("a"), vNondetU32("b")
	vAssume(a != b)
	gap := vNondetTime("gap")
	vAssume(gap >= 0 && gap < 5*sec)
	tAcc, tDial := int64(0), gap
	if vChoice(2) == 1 {
		vCover("dial-first")
		tAcc, tDial = gap, 0
	} else {
		vCover("accept-first")
	}
	var lnA, lnB net.Listener
	var cA, cB *grpc.ClientConn
	var e1, e2, e3, e4 error
	done := make(chan struct{}, 4)
	go func() { vSetProc(1); vSleepUntil(tAcc); lnA, e1 = pb.Accept(a); done <- struct{}{} }()
	go func() { vSleepUntil(tAcc); lnB, e2 = hb.Accept(b); done <- struct{}{} }()
	go func() { vSleepUntil(tDial); cA, e3 = hb.Dial(a); done <- struct{}{} }()
	go func() { vSetProc(1); vSleepUntil(tDial); cB, e4 = pb.Dial(b); done <- struct{}{} }()
	for i := 0; i < 4; i++ {
		<-done
	}
	vAssert(e1 == nil && e2 == nil && e3 == nil && e4 == nil, "C07: accept and dial within the pending window succeed in both directions")
	// first use of each dialled connection: gRPC invokes the dialer; the listener that receives it must be the ID's
	na, errA := connG[cA].dialer("", 0)
	vSetProc(1)
	nb, errB := connG[cB].dialer("", 0)
	vSetProc(0)
	vAssert(errA == nil && errB == nil, "C07: the first use of the dialled connection reaches a live listener")
	gotA, _ := lnA.Accept()
	gotB, _ := lnB.Accept()
	vAssert(gotA.(*vNetConn) == na.(*vNetConn).peer, "C07: the connection dialled for ID a is served by the listener accepted for a")
	vAssert(gotB.(*vNetConn) == nb.(*vNetConn).peer, "C07: the connection dialled for ID b is served by the listener accepted for b")
	vCover("routed")
	vDone()
}

// harnessC07same: ONE ID, accepted and dialled at the same instant (the connection info arrives while the Dial is
// looking its pending entry up), plugin accepts / host dials or the reverse; small enough for two reversals.
func harnessC07same() {
	h2p, p2h := make(chan *plugin.ConnInfo, 8), make(chan *plugin.ConnInfo, 8)
	hs := &gRPCBrokerClientImpl{client: vBrokerClient{h2p, p2h}, send: make(chan *sendErr), recv: make(chan *plugin.ConnInfo), quit: make(chan struct{})}
	go func() { vDaemon(); hs.StartStream() }()
	ps := newGRPCBrokerServer()
	go func() { vDaemon(); ps.StartStream(&vBidi{vStreamBase{vCtx{}}, p2h, h2p}) }()
	hb := newGRPCBroker(hs, nil, UnixSocketConfig{}, nil, nil2())
	pb := newGRPCBroker(ps, nil, UnixSocketConfig{}, nil, nil2())
	go func() { vDaemon(); hb.Run() }()
	go func() { vDaemon(); vSetProc(1); pb.Run() }()
	a := vNondetU32("a")
	acc, dia, accProc, diaProc := pb, hb, 1, 0
	if vChoice(2) == 1 {
		vCover("host-accepts")
		acc, dia, accProc, diaProc = hb, pb, 0, 1
	} else {
		vCover("plugin-accepts")
	}
	var ln net.Listener
	var cc *grpc.ClientConn
	var e1, e2 error
	done := make(chan struct{}, 2)
	go func() { vSetProc(accProc); ln, e1 = acc.Accept(a); done <- struct{}{} }()
	go func() { vSetProc(diaProc); cc, e2 = dia.Dial(a); done <- struct{}{} }()
	<-done
	<-done
	vAssert(e1 == nil && e2 == nil, "C07: accept and dial issued at the same moment both succeed")
	vSetProc(diaProc)
	nc, err := connG[cc].dialer("", 0)
	vSetProc(0)
	vAssert(err == nil, "C07: the first use of the dialled connection reaches a live listener")
	got, _ := ln.Accept()
	vAssert(got.(*vNetConn) == nc.(*vNetConn).peer, "C07: the connection dialled for ID a is served by the listener accepted for a")
	vCover("routed")
	vDone()
}

// harnessC07twoDials: two IDs accepted on the plugin, then dialled from the host by two goroutines at once (two
// connections being set up in one process): happens-before race detection over what go-plugin touches while dialling,
// and each connection reaches its own ID's listener.
func harnessC07twoDials() {
	h2p, p2h := make(chan *plugin.ConnInfo, 8), make(chan *plugin.ConnInfo, 8)
	hs := &gRPCBrokerClientImpl{client: vBrokerClient{h2p, p2h}, send: make(chan *sendErr), recv: make(chan *plugin.ConnInfo), quit: make(chan struct{})}
	go func() { vDaemon(); hs.StartStream() }()
	ps := newGRPCBrokerServer()
	go func() { vDaemon(); ps.StartStream(&vBidi{vStreamBase{vCtx{}}, p2h, h2p}) }()
	hb := newGRPCBroker(hs, nil, UnixSocketConfig{}, nil, nil2())
	pb := newGRPCBroker(ps, nil, UnixSocketConfig{}, nil, nil2())
	go func() { vDaemon(); hb.Run() }()
	go func() { vDaemon(); vSetProc(1); pb.Run() }()
	a, c := vNondetU32("a"), vNondetU32("c")
	vAssume(a != c)
	vSetProc(1)
	lnA, e1 := pb.Accept(a)
	lnC, e2 := pb.Accept(c)
	vSetProc(0)
	vAssume(e1 == nil && e2 == nil)
	vSleepUntil(sec)
	var cA, cC *grpc.ClientConn
	var e3, e4 error
	var nA, nC net.Conn
	done := make(chan struct{}, 2)
	go func() {
		cA, e3 = hb.Dial(a)
		if e3 == nil {
			nA, e3 = connG[cA].dialer("", 0)
		}
		done <- struct{}{}
	}()
	go func() {
		cC, e4 = hb.Dial(c)
		if e4 == nil {
			nC, e4 = connG[cC].dialer("", 0)
		}
		done <- struct{}{}
	}()
	<-done
	<-done
	vAssert(e3 == nil && e4 == nil, "C07: two connections dialled at once both succeed")
	gotA, _ := lnA.Accept()
	gotC, _ := lnC.Accept()
	vAssert(gotA.(*vNetConn) == nA.(*vNetConn).peer, "C07: the connection dialled for ID a is served by the listener accepted for a (two dials at once)")
	vAssert(gotC.(*vNetConn) == nC.(*vNetConn).peer, "C07: the connection dialled for ID c is served by the listener accepted for c (two dials at once)")
	vCover("routed")
	vDone()
}

type noMux struct{}

func nil2() *noMuxer { return nil }

type noMuxer struct{}

func (m *noMuxer) Enabled() bool                                               { return m != nil }
func (m *noMuxer) Listener(id uint32, d <-chan struct{}) (net.Listener, error) { return nil, nil }
func (m *noMuxer) AcceptKnock(id uint32) error                                 { return nil }
func (m *noMuxer) Dial() (net.Conn, error)                                     { return nil, nil }
func (m *noMuxer) Close() error                                                { return nil }

// C09, gRPC broker without multiplexing: <= 2 dials nobody accepts (IDs not assumed distinct), optionally an accept
// nobody dials (its connection info is parked on the other side and expires), at symbolic instants; then a fresh pair
// must still be routed, and closing the brokers ends their goroutines.
func harnessC09grpc() {
	h2p, p2h := make(chan *plugin.ConnInfo, 8), make(chan *plugin.ConnInfo, 8)
	hs := &gRPCBrokerClientImpl{client: vBrokerClient{h2p, p2h}, send: make(chan *sendErr), recv: make(chan *plugin.ConnInfo), quit: make(chan struct{})}
	go func() { vDaemon(); hs.StartStream() }()
	ps := newGRPCBrokerServer()
	go func() { vDaemon(); ps.StartStream(&vBidi{vStreamBase{vCtx{}}, p2h, h2p}) }()
	hb := newGRPCBroker(hs, nil, UnixSocketConfig{}, nil, nil2())
	pb := newGRPCBroker(ps, nil, UnixSocketConfig{}, nil, nil2())
	hRun, pRun := false, false
	go func() { vDaemon(); hb.Run(); hRun = true }()
	go func() { vDaemon(); pb.Run(); pRun = true }()

	x1, x2, a := vNondetU32("x1"), vNondetU32("x2"), vNondetU32("a")
	t1, t2, tA := vNondetTime("t1"), vNondetTime("t2"), vNondetTime("tA")
	vAssume(t1 <= t2)
	vAssume(a != x1 && a != x2) // the accept is for an ID nobody dials (otherwise it would be a matched pair)
	n := 1 + vChoice(2)
	last := t1
	done := make(chan struct{}, 3)
	go func() {
		vSleepUntil(t1)
		t0 := vNow()
		_, err := hb.Dial(x1)
		vAssert(err != nil, "C09: a dial nobody accepts returns an error")
		vAssert(vNow()-t0 <= 6*sec, "C09: an unmatched dial returns within the pending window")
		done <- struct{}{}
	}()
	if n == 2 {
		last = t2
		go func() {
			vSleepUntil(t2)
			t0 := vNow()
			_, err := hb.Dial(x2)
			vAssert(err != nil, "C09: a second dial nobody accepts returns an error")
			vAssert(vNow()-t0 <= 6*sec, "C09: an unmatched dial returns within the pending window")
			done <- struct{}{}
		}()
	} else {
		done <- struct{}{}
	}
	if vChoice(2) == 1 {
		vCover("lonely-accept")
		if tA > last {
			last = tA
		}
		go func() {
			vSleepUntil(tA)
			_, err := pb.Accept(a) // nobody dials a: the info sits on the host side until it expires
			vAssert(err == nil, "C09: an accept without a dial still returns its listener")
			done <- struct{}{}
		}()
	} else {
		done <- struct{}{}
	}
	for i := 0; i < 3; i++ {
		<-done
	}
	vCover("history-done")

	f := vNondetU32("f")
	if vChoice(2) == 1 {
		// not a fresh ID: the one whose dial timed out earlier is tried again, this time with an accept (C07: accept and
		// dial within the window succeed, whatever happened to that number before)
		vCover("retry-of-timed-out-id")
		f = x1
	} else {
		vAssume(f != x1 && f != x2 && f != a)
	}
	vSleepUntil(last + 12*sec)
	lnF, e1 := pb.Accept(f)
	gapF := vNondetTime("gapF")
	vAssume(gapF >= 0 && gapF <= 4*sec)
	vSleepUntil(vNow() + gapF)
	cF, e2 := hb.Dial(f)
	if vParam("as_c07") == 1 { // the same run registered under C07: the routing claim after such a history
		vAssert(e1 == nil && e2 == nil, "C07: accept and dial within the pending window succeed after unmatched dials (also on a number whose dial timed out before)")
	} else {
		vAssert(e1 == nil && e2 == nil, "C09: after the history a fresh accept/dial pair still succeeds")
	}
	nf, errF := connG[cF].dialer("", 0)
	gotF, _ := lnF.Accept()
	if vParam("as_c07") == 1 {
		vAssert(errF == nil && gotF.(*vNetConn) == nf.(*vNetConn).peer, "C07: the connection dialled for n reaches the listener accepted for n (after unmatched dials)")
	} else {
		vAssert(errF == nil, "C09: the fresh connection reaches a live listener")
		vAssert(gotF.(*vNetConn) == nf.(*vNetConn).peer, "C09: the fresh pair is connected")
	}
	vCover("fresh-pair")

	hb.Close()
	pb.Close()
	vSleepUntil(vNow() + sec)
	vAssert(hRun && pRun, "C09: closing the brokers ends their Run goroutines")
	vCover("closed")
	vDone()
}

// C20: a broker Accept (which sends connection info through the stream pump) racing with Close of the same broker, on
// either side; all schedules within the reversal bound; no panic, no race, no hang.
func harnessC20brokerClose() {
	h2p, p2h := make(chan *plugin.ConnInfo, 8), make(chan *plugin.ConnInfo, 8)
	hs := &gRPCBrokerClientImpl{client: vBrokerClient{h2p, p2h}, send: make(chan *sendErr), recv: make(chan *plugin.ConnInfo), quit: make(chan struct{})}
	go func() { vDaemon(); hs.StartStream() }()
	ps := newGRPCBrokerServer()
	go func() { vDaemon(); ps.StartStream(&vBidi{vStreamBase{vCtx{}}, p2h, h2p}) }()
	hb := newGRPCBroker(hs, nil, UnixSocketConfig{}, nil, nil2())
	pb := newGRPCBroker(ps, nil, UnixSocketConfig{}, nil, nil2())
	go func() { vDaemon(); hb.Run() }()
	go func() { vDaemon(); pb.Run() }()
	b := pb
	if vChoice(2) == 1 {
		vCover("host-side")
		b = hb
	} else {
		vCover("plugin-side")
	}
	done := make(chan struct{}, 2)
	go func() { b.Accept(5); done <- struct{}{} }()
	go func() { b.Close(); done <- struct{}{} }()
	<-done
	<-done
	vCover("both-returned")
	vDone()
}

// C07 with several IDs outstanding at once in ONE direction: IDs a and c are both accepted on the plugin and dialled
// from the host (and b the other way round); all accepts are issued before the dials, or all dials first.
func harnessC07multi() {
	h2p, p2h := make(chan *plugin.ConnInfo, 8), make(chan *plugin.ConnInfo, 8)
	hs := &gRPCBrokerClientImpl{client: vBrokerClient{h2p, p2h}, send: make(chan *sendErr), recv: make(chan *plugin.ConnInfo), quit: make(chan struct{})}
	go func() { vDaemon(); hs.StartStream() }()
	ps := newGRPCBrokerServer()
	go func() { vDaemon(); ps.StartStream(&vBidi{vStreamBase{vCtx{}}, p2h, h2p}) }()
	hb := newGRPCBroker(hs, nil, UnixSocketConfig{}, nil, nil2())
	pb := newGRPCBroker(ps, nil, UnixSocketConfig{}, nil, nil2())
	go func() { vDaemon(); hb.Run() }()
	go func() { vDaemon(); vSetProc(1); pb.Run() }()

	a, b, c := vNondetU32("a"), vNondetU32("b"), vNondetU32("c")
	vAssume(a != b && a != c && b != c)
	gap := vNondetTime("gap")
	vAssume(gap > 0 && gap < 5*sec)
	tAcc, tDial := int64(0), gap
	if vChoice(2) == 1 {
		vCover("dial-first")
		tAcc, tDial = gap, 0
	} else {
		vCover("accept-first")
	}
	var lnA, lnB, lnC net.Listener
	var cA, cB, cC *grpc.ClientConn
	var e [6]error
	done := make(chan struct{}, 6)
	go func() { vSetProc(1); vSleepUntil(tAcc); lnA, e[0] = pb.Accept(a); lnC, e[1] = pb.Accept(c); done <- struct{}{}; done <- struct{}{} }()
	go func() { vSleepUntil(tAcc); lnB, e[2] = hb.Accept(b); done <- struct{}{} }()
	go func() { vSleepUntil(tDial); cC, e[3] = hb.Dial(c); done <- struct{}{} }()
	go func() { vSleepUntil(tDial); cA, e[4] = hb.Dial(a); done <- struct{}{} }()
	go func() { vSetProc(1); vSleepUntil(tDial); cB, e[5] = pb.Dial(b); done <- struct{}{} }()
	for i := 0; i < 6; i++ {
		<-done
	}
	for i := range e {
		vAssert(e[i] == nil, "C07: accept and dial within the pending window succeed for every outstanding ID")
	}
	na, errA := connG[cA].dialer("", 0)
	nc, errC := connG[cC].dialer("", 0)
	vSetProc(1)
	nb, errB := connG[cB].dialer("", 0)
	vSetProc(0)
	vAssert(errA == nil && errB == nil && errC == nil, "C07: the first use of every dialled connection reaches a live listener")
	gotA, _ := lnA.Accept()
	gotB, _ := lnB.Accept()
	gotC, _ := lnC.Accept()
	vAssert(gotA.(*vNetConn) == na.(*vNetConn).peer, "C07: the connection dialled for ID a is served by the listener accepted for a (two IDs outstanding in one direction)")
	vAssert(gotC.(*vNetConn) == nc.(*vNetConn).peer, "C07: the connection dialled for ID c is served by the listener accepted for c (two IDs outstanding in one direction)")
	vAssert(gotB.(*vNetConn) == nb.(*vNetConn).peer, "C07: the connection dialled for ID b is served by the listener accepted for b")
	vCover("routed")
	vDone()
}
