package plugin

// World model, part 4: gRPC, cut at the generated-code interfaces.
//
// Contract: grpc.Dial records the dialer and the credentials and connects on first use; Server.Serve(l) accepts from l
// until stopped; Stop/GracefulStop close the listeners being served and every accepted connection (documented). A unary
// call runs the registered REAL implementation method in a goroutine of the serving process and returns when answered,
// when its context is done, or with Unavailable when the connection is dead - and blocks otherwise. A stream is a FIFO
// pair; Send copies (marshals) the message at call time. Credentials follow the crypto/tls contract of w_net.go.

import (
	"context"
	"crypto/tls"
	"errors"
	"io"
	"net"
	"time"

	empty "github.com/golang/protobuf/ptypes/empty"
	"github.com/hashicorp/go-plugin/internal/plugin"
	"github.com/hashicorp/yamux"
	"google.golang.org/grpc"
	"google.golang.org/grpc/codes"
	"google.golang.org/grpc/credentials"
	"google.golang.org/grpc/health"
	"google.golang.org/grpc/health/grpc_health_v1"
	"google.golang.org/grpc/metadata"
)

var wErrUnavailable = errors.New("rpc error: code = Unavailable desc = connection dead")
var wErrUnimplemented = errors.New("rpc error: code = Unimplemented desc = unknown service")
var wErrCanceled = errors.New("rpc error: code = Canceled desc = context canceled")

//verif:model google.golang.org/grpc/status.Code
func mStatusCode(err error) codes.Code {
	switch err {
	case nil:
		return codes.OK
	case wErrUnavailable:
		return codes.Unavailable
	case wErrUnimplemented:
		return codes.Unimplemented
	case wErrCanceled:
		return codes.Canceled
	}
	return codes.Unknown
}

// ---------------------------------------------------------------------------------------------- options
type wCreds struct{ cfg *tls.Config }

func (c *wCreds) ClientHandshake(ctx context.Context, a string, n net.Conn) (net.Conn, credentials.AuthInfo, error) {
	return n, nil, nil
}
func (c *wCreds) ServerHandshake(n net.Conn) (net.Conn, credentials.AuthInfo, error) { return n, nil, nil }
func (c *wCreds) Info() credentials.ProtocolInfo                                   { return credentials.ProtocolInfo{} }
func (c *wCreds) Clone() credentials.TransportCredentials                          { return c }
func (c *wCreds) OverrideServerName(string) error                                  { return nil }

//verif:model google.golang.org/grpc/credentials.NewTLS
func mCredsNewTLS(c *tls.Config) credentials.TransportCredentials { return &wCreds{cfg: c} }

type wDialOpt struct {
	grpc.EmptyDialOption
	dialer   func(string, time.Duration) (net.Conn, error)
	creds    credentials.TransportCredentials
	insecure bool
}

//verif:model google.golang.org/grpc.WithDialer
func mWithDialer(f func(string, time.Duration) (net.Conn, error)) grpc.DialOption {
	return &wDialOpt{dialer: f}
}

//verif:model google.golang.org/grpc.WithTransportCredentials
func mWithTransportCredentials(c credentials.TransportCredentials) grpc.DialOption {
	return &wDialOpt{creds: c}
}

//verif:model google.golang.org/grpc.WithInsecure
func mWithInsecure() grpc.DialOption { return &wDialOpt{insecure: true} }

//verif:model google.golang.org/grpc.FailOnNonTempDialError
func mFailOnNonTemp(b bool) grpc.DialOption { return &wDialOpt{} }

//verif:model google.golang.org/grpc.WithBlock
func mWithBlock() grpc.DialOption { return &wDialOpt{} }

//verif:model google.golang.org/grpc.WithDefaultCallOptions
func mWithDefaultCallOptions(o ...grpc.CallOption) grpc.DialOption { return &wDialOpt{} }

//verif:model google.golang.org/grpc.MaxCallRecvMsgSize
func mMaxRecv(n int) grpc.CallOption { return grpc.EmptyCallOption{} }

//verif:model google.golang.org/grpc.MaxCallSendMsgSize
func mMaxSend(n int) grpc.CallOption { return grpc.EmptyCallOption{} }

type wServerOpt struct {
	grpc.EmptyServerOption
	creds credentials.TransportCredentials
}

//verif:model google.golang.org/grpc.Creds
func mGrpcCreds(c credentials.TransportCredentials) grpc.ServerOption { return &wServerOpt{creds: c} }

// ---------------------------------------------------------------------------------------------- connection ends
// A gRPC connection runs over whatever the dialer returns: a modelled socket connection or a yamux stream.
type wEnd struct {
	sec     *tls.Config
	served  *wGRPCServer
	servedC chan struct{}
}

var wEndG = map[any]*wEnd{}

func wEndOf(k any) *wEnd {
	if e, ok := wEndG[k]; ok {
		return e
	}
	e := &wEnd{servedC: make(chan struct{})}
	wEndG[k] = e
	return e
}

func wConnKey(c net.Conn) any {
	switch x := c.(type) {
	case *wConn:
		return x
	case *yamux.Stream:
		return x
	case *tls.Conn:
		return wTLSConnG[x].raw
	}
	return c
}

func wPeerKey(k any) any {
	switch x := k.(type) {
	case *wConn:
		return x.peer
	case *yamux.Stream:
		return wStrmG[x].peer.h
	}
	return nil
}

// the channels whose closing means the connection is dead
func wDeadChans(k any) (<-chan struct{}, <-chan struct{}, <-chan struct{}, <-chan struct{}) {
	switch x := k.(type) {
	case *wConn:
		return x.closeCh, x.peer.closeCh, wNever, wNever
	case *yamux.Stream:
		g := wStrmG[x]
		raw := g.rawConn()
		return g.closeC, g.peer.closeC, raw.closeCh, raw.peer.closeCh
	}
	return wNever, wNever, wNever, wNever
}

func wKeyDead(k any) bool {
	switch x := k.(type) {
	case *wConn:
		return x.dead()
	case *yamux.Stream:
		return wStrmG[x].gone()
	}
	return true
}

func wKeyShut(k any) {
	switch x := k.(type) {
	case *wConn:
		x.shut()
	case *yamux.Stream:
		mStreamClose(x)
	}
}

// ---------------------------------------------------------------------------------------------- server
type wGRPCServer struct {
	h          *grpc.Server
	proc       int
	creds      *tls.Config
	broker     plugin.GRPCBrokerServer
	controller plugin.GRPCControllerServer
	stdio      plugin.GRPCStdioServer
	user       map[string]any
	lis        []net.Listener
	conns      []any
	stopC      chan struct{}
	stopped    bool
	tag        int
}

var wGRPCSrvG = map[*grpc.Server]*wGRPCServer{}
var wGRPCSrvN int

//verif:model google.golang.org/grpc.NewServer
func mGrpcNewServer(opts ...grpc.ServerOption) *grpc.Server {
	s := new(grpc.Server)
	wGRPCSrvN++
	g := &wGRPCServer{h: s, proc: vCurProc(), user: map[string]any{}, stopC: make(chan struct{}), tag: wGRPCSrvN}
	for _, o := range opts {
		if so, ok := o.(*wServerOpt); ok && so.creds != nil {
			g.creds = so.creds.(*wCreds).cfg
		}
	}
	wGRPCSrvG[s] = g
	return s
}

//verif:model (*google.golang.org/grpc.Server).Serve
func mGrpcServe(s *grpc.Server, l net.Listener) error {
	g := wGRPCSrvG[s]
	if g.stopped {
		l.Close()
		return grpc.ErrServerStopped
	}
	g.lis = append(g.lis, l)
	for {
		c, err := l.Accept()
		if err != nil {
			if g.stopped {
				return nil
			}
			return err
		}
		k := wConnKey(c)
		g.conns = append(g.conns, k)
		e := wEndOf(k)
		e.sec = g.creds
		// both ends have now declared how they speak
		var cc *tls.Config
		if pk := wPeerKey(k); pk != nil {
			cc = wEndOf(pk).sec
		}
		if err := wHandshake(cc, g.creds); err != nil {
			wHandshakeFailures++
			wKeyShut(k)
			if pk := wPeerKey(k); pk != nil {
				wKeyShut(pk)
			}
		}
		e.served = g
		close(e.servedC)
	}
}

func (g *wGRPCServer) stop() {
	if g.stopped {
		return
	}
	g.stopped = true
	for _, l := range g.lis {
		l.Close()
	}
	for _, k := range g.conns {
		wKeyShut(k)
	}
	close(g.stopC)
}

//verif:model (*google.golang.org/grpc.Server).Stop
func mGrpcStop(s *grpc.Server) { wGRPCSrvG[s].stop() }

//verif:model (*google.golang.org/grpc.Server).GracefulStop
func mGrpcGracefulStop(s *grpc.Server) { wGRPCSrvG[s].stop() }

//verif:model google.golang.org/grpc/health.NewServer
func mHealthNew() *health.Server { return new(health.Server) }

//verif:model (*google.golang.org/grpc/health.Server).SetServingStatus
func mSetServing(h *health.Server, svc string, st grpc_health_v1.HealthCheckResponse_ServingStatus) {}

//verif:model google.golang.org/grpc/health/grpc_health_v1.RegisterHealthServer
func mRegHealth(s grpc.ServiceRegistrar, srv grpc_health_v1.HealthServer) {}

//verif:model google.golang.org/grpc/reflection.Register
func mReflection(s interface{}) {}

//verif:model github.com/hashicorp/go-plugin/internal/plugin.RegisterGRPCBrokerServer
func mRegBroker(s grpc.ServiceRegistrar, srv plugin.GRPCBrokerServer) {
	wGRPCSrvG[s.(*grpc.Server)].broker = srv
}

//verif:model github.com/hashicorp/go-plugin/internal/plugin.RegisterGRPCControllerServer
func mRegController(s grpc.ServiceRegistrar, srv plugin.GRPCControllerServer) {
	wGRPCSrvG[s.(*grpc.Server)].controller = srv
}

//verif:model github.com/hashicorp/go-plugin/internal/plugin.RegisterGRPCStdioServer
func mRegStdio(s grpc.ServiceRegistrar, srv plugin.GRPCStdioServer) {
	wGRPCSrvG[s.(*grpc.Server)].stdio = srv
}

// a service of the plugin author: registered and looked up by name
func wRegisterUser(s *grpc.Server, name string, impl any) { wGRPCSrvG[s].user[name] = impl }

// ---------------------------------------------------------------------------------------------- client connection
type wClientConn struct {
	dialer func(string, time.Duration) (net.Conn, error)
	sec    *tls.Config
	key    any
	closed bool
	dialed bool
	derr   error
}

var wCCG = map[*grpc.ClientConn]*wClientConn{}

//verif:model google.golang.org/grpc.Dial
func mGrpcDial(target string, opts ...grpc.DialOption) (*grpc.ClientConn, error) {
	g := &wClientConn{}
	for _, o := range opts {
		if d, ok := o.(*wDialOpt); ok {
			if d.dialer != nil {
				g.dialer = d.dialer
			}
			if d.creds != nil {
				g.sec = d.creds.(*wCreds).cfg
			}
		}
	}
	c := new(grpc.ClientConn)
	wCCG[c] = g
	return c, nil
}

//verif:model (*google.golang.org/grpc.ClientConn).Close
func mConnClose(cc *grpc.ClientConn) error {
	g := wCCG[cc]
	if g.closed {
		return grpc.ErrClientConnClosing
	}
	g.closed = true
	if g.key != nil {
		wKeyShut(g.key)
	}
	return nil
}

// target: connect on first use, wait until the other end is being served (or the connection dies, or ctx ends)
func wTarget(cci grpc.ClientConnInterface, ctx context.Context) (*wGRPCServer, any, error) {
	cc, ok := cci.(*grpc.ClientConn)
	if !ok {
		return nil, nil, wErrUnavailable
	}
	g := wCCG[cc]
	if g == nil || g.closed {
		return nil, nil, wErrCanceled
	}
	if !g.dialed {
		g.dialed = true
		if g.dialer == nil {
			g.derr = wErrUnavailable
		} else {
			c, err := g.dialer("unused", 0)
			if err != nil {
				g.derr = wErrUnavailable
			} else {
				g.key = wConnKey(c)
				wEndOf(g.key).sec = g.sec
			}
		}
	}
	if g.derr != nil {
		return nil, nil, g.derr
	}
	pk := wPeerKey(g.key)
	if pk == nil {
		return nil, nil, wErrUnavailable
	}
	pe := wEndOf(pk)
	d1, d2, d3, d4 := wDeadChans(g.key)
	select {
	case <-pe.servedC:
	case <-d1:
		return nil, nil, wErrUnavailable
	case <-d2:
		return nil, nil, wErrUnavailable
	case <-d3:
		return nil, nil, wErrUnavailable
	case <-d4:
		return nil, nil, wErrUnavailable
	case <-ctx.Done():
		return nil, nil, wErrCanceled
	}
	if wKeyDead(g.key) {
		return nil, nil, wErrUnavailable
	}
	if p := wProcs[pe.served.proc]; p != nil && p.frozen {
		// a stopped process answers nothing: the call can only end with its context or with the connection
		select {
		case <-d1:
		case <-d2:
		case <-d3:
		case <-d4:
		case <-ctx.Done():
			return nil, nil, wErrCanceled
		}
		return nil, nil, wErrUnavailable
	}
	return pe.served, g.key, nil
}

// server-side context of one RPC: done when the caller's context is done or the connection dies
func wServerCtx(ctx context.Context, key any) (*wCtx, func()) {
	sc := &wCtx{done: make(chan struct{})}
	d1, d2, d3, d4 := wDeadChans(key)
	go func() {
		vDaemon()
		select {
		case <-ctx.Done():
		case <-d1:
		case <-d2:
		case <-d3:
		case <-d4:
		case <-sc.done:
		}
		sc.cancel(context.Canceled)
	}()
	return sc, func() { sc.cancel(context.Canceled) }
}

// unary: run f (the real implementation method) in a goroutine of the serving process; wait for the answer
func wUnary(cc grpc.ClientConnInterface, ctx context.Context, f func(srv *wGRPCServer, sctx context.Context) (any, error)) (any, error) {
	srv, key, err := wTarget(cc, ctx)
	if err != nil {
		return nil, err
	}
	if wNetDelay > 0 { // the request takes time to travel: the peer may die meanwhile
		vSleepUntil(vNow() + wNetDelay)
		if wKeyDead(key) {
			return nil, wErrUnavailable
		}
	}
	type res struct {
		v   any
		err error
	}
	done := make(chan res, 1)
	sctx, cancel := wServerCtx(ctx, key)
	go func() {
		vSetProc(srv.proc)
		v, err := f(srv, sctx)
		done <- res{v, err}
	}()
	d1, d2, d3, d4 := wDeadChans(key)
	select {
	case r := <-done:
		cancel()
		return r.v, r.err
	case <-ctx.Done():
		return nil, wErrCanceled
	case <-d1:
	case <-d2:
	case <-d3:
	case <-d4:
	}
	// the answer may have been sent before the connection died
	select {
	case r := <-done:
		return r.v, r.err
	default:
	}
	return nil, wErrUnavailable
}

// ---------------------------------------------------------------------------------------------- streams
type wStreamBase struct {
	ctx context.Context
	key any
}

func (s *wStreamBase) Context() context.Context     { return s.ctx }
func (s *wStreamBase) SendMsg(m interface{}) error  { return nil }
func (s *wStreamBase) RecvMsg(m interface{}) error  { return nil }
func (s *wStreamBase) Header() (metadata.MD, error) { return nil, nil }
func (s *wStreamBase) Trailer() metadata.MD         { return nil }
func (s *wStreamBase) CloseSend() error             { return nil }
func (s *wStreamBase) SetHeader(metadata.MD) error  { return nil }
func (s *wStreamBase) SendHeader(metadata.MD) error { return nil }
func (s *wStreamBase) SetTrailer(metadata.MD)       {}

// broker: bidirectional stream of *plugin.ConnInfo
type wBrokerPipe struct {
	toSrv, toCli chan *plugin.ConnInfo
	srvDone      chan struct{} // the server handler returned
}
type wBrokerCliStream struct {
	wStreamBase
	p *wBrokerPipe
}
type wBrokerSrvStream struct {
	wStreamBase
	p *wBrokerPipe
}

func (s *wBrokerCliStream) Send(m *plugin.ConnInfo) error {
	if wKeyDead(s.key) {
		return io.EOF
	}
	s.p.toSrv <- vClone(m).(*plugin.ConnInfo)
	return nil
}
func (s *wBrokerCliStream) Recv() (*plugin.ConnInfo, error) {
	d1, d2, d3, d4 := wDeadChans(s.key)
	select {
	case m := <-s.p.toCli:
		return m, nil
	case <-s.p.srvDone:
		return nil, io.EOF
	case <-s.ctx.Done():
		return nil, wErrCanceled
	case <-d1:
	case <-d2:
	case <-d3:
	case <-d4:
	}
	return nil, wErrUnavailable
}
func (s *wBrokerSrvStream) Send(m *plugin.ConnInfo) error {
	if wKeyDead(s.key) {
		return io.EOF
	}
	s.p.toCli <- vClone(m).(*plugin.ConnInfo)
	return nil
}
func (s *wBrokerCliStream) RecvMsg(m interface{}) error {
	i, err := s.Recv()
	if err != nil {
		return err
	}
	vCopyInto(m, i)
	return nil
}
func (s *wBrokerCliStream) SendMsg(m interface{}) error { return s.Send(m.(*plugin.ConnInfo)) }
func (s *wBrokerSrvStream) RecvMsg(m interface{}) error {
	i, err := s.Recv()
	if err != nil {
		return err
	}
	vCopyInto(m, i)
	return nil
}
func (s *wBrokerSrvStream) SendMsg(m interface{}) error { return s.Send(m.(*plugin.ConnInfo)) }
func (s *wBrokerSrvStream) Recv() (*plugin.ConnInfo, error) {
	select {
	case m := <-s.p.toSrv:
		return m, nil
	case <-s.ctx.Done():
		return nil, io.EOF
	}
}

type wBrokerClient struct{ cc grpc.ClientConnInterface }

//verif:model github.com/hashicorp/go-plugin/internal/plugin.NewGRPCBrokerClient
func mNewBrokerClient(cc grpc.ClientConnInterface) plugin.GRPCBrokerClient { return &wBrokerClient{cc} }

func (c *wBrokerClient) StartStream(ctx context.Context, opts ...grpc.CallOption) (plugin.GRPCBroker_StartStreamClient, error) {
	srv, key, err := wTarget(c.cc, ctx)
	if err != nil {
		return nil, err
	}
	if srv.broker == nil {
		return nil, wErrUnimplemented
	}
	p := &wBrokerPipe{toSrv: make(chan *plugin.ConnInfo, 16), toCli: make(chan *plugin.ConnInfo, 16), srvDone: make(chan struct{})}
	sctx, _ := wServerCtx(ctx, key)
	go func() {
		vDaemon()
		vSetProc(srv.proc)
		srv.broker.StartStream(&wBrokerSrvStream{wStreamBase{sctx, wPeerKey(key)}, p})
		close(p.srvDone)
	}()
	return &wBrokerCliStream{wStreamBase{ctx, key}, p}, nil
}

// stdio: server stream of *plugin.StdioData
type wStdioPipe struct {
	toCli   chan *plugin.StdioData
	srvDone chan struct{}
}
type wStdioCliStream struct {
	wStreamBase
	p *wStdioPipe
}
type wStdioSrvStream struct {
	wStreamBase
	p *wStdioPipe
}

func (s *wStdioCliStream) Recv() (*plugin.StdioData, error) {
	d1, d2, d3, d4 := wDeadChans(s.key)
	select {
	case m := <-s.p.toCli:
		return m, nil
	case <-s.p.srvDone:
		return nil, io.EOF
	case <-s.ctx.Done():
		return nil, wErrCanceled
	case <-d1:
	case <-d2:
	case <-d3:
	case <-d4:
	}
	return nil, wErrUnavailable
}

// Send marshals: the bytes are read at call time
func (s *wStdioSrvStream) Send(m *plugin.StdioData) error {
	if wKeyDead(s.key) {
		return io.EOF
	}
	s.p.toCli <- &plugin.StdioData{Channel: m.Channel, Data: []byte(vBytesRead(m.Data))}
	return nil
}

type wStdioClient struct{ cc grpc.ClientConnInterface }

//verif:model github.com/hashicorp/go-plugin/internal/plugin.NewGRPCStdioClient
func mNewStdioClient(cc grpc.ClientConnInterface) plugin.GRPCStdioClient { return &wStdioClient{cc} }

func (c *wStdioClient) StreamStdio(ctx context.Context, in *empty.Empty, opts ...grpc.CallOption) (plugin.GRPCStdio_StreamStdioClient, error) {
	srv, key, err := wTarget(c.cc, ctx)
	if err != nil {
		return nil, err
	}
	if srv.stdio == nil {
		return nil, wErrUnimplemented
	}
	p := &wStdioPipe{toCli: make(chan *plugin.StdioData, 16), srvDone: make(chan struct{})}
	sctx, _ := wServerCtx(ctx, key)
	go func() {
		vDaemon()
		vSetProc(srv.proc)
		srv.stdio.StreamStdio(&empty.Empty{}, &wStdioSrvStream{wStreamBase{sctx, wPeerKey(key)}, p})
		close(p.srvDone)
	}()
	return &wStdioCliStream{wStreamBase{ctx, key}, p}, nil
}

// controller: unary Shutdown
type wControllerClient struct{ cc grpc.ClientConnInterface }

//verif:model github.com/hashicorp/go-plugin/internal/plugin.NewGRPCControllerClient
func mNewControllerClient(cc grpc.ClientConnInterface) plugin.GRPCControllerClient {
	return &wControllerClient{cc}
}

func (c *wControllerClient) Shutdown(ctx context.Context, in *plugin.Empty, opts ...grpc.CallOption) (*plugin.Empty, error) {
	_, err := wUnary(c.cc, ctx, func(srv *wGRPCServer, sctx context.Context) (any, error) {
		if srv.controller == nil {
			return nil, wErrUnimplemented
		}
		return srv.controller.Shutdown(sctx, &plugin.Empty{})
	})
	if err != nil {
		return nil, err
	}
	return &plugin.Empty{}, nil
}

// health: Check succeeds while the server answers
type wHealthClient struct{ cc grpc.ClientConnInterface }

//verif:model google.golang.org/grpc/health/grpc_health_v1.NewHealthClient
func mNewHealthClient(cc grpc.ClientConnInterface) grpc_health_v1.HealthClient { return &wHealthClient{cc} }

func (c *wHealthClient) Check(ctx context.Context, in *grpc_health_v1.HealthCheckRequest, opts ...grpc.CallOption) (*grpc_health_v1.HealthCheckResponse, error) {
	_, err := wUnary(c.cc, ctx, func(srv *wGRPCServer, sctx context.Context) (any, error) { return nil, nil })
	if err != nil {
		return nil, err
	}
	return &grpc_health_v1.HealthCheckResponse{Status: grpc_health_v1.HealthCheckResponse_SERVING}, nil
}
func (c *wHealthClient) Watch(ctx context.Context, in *grpc_health_v1.HealthCheckRequest, opts ...grpc.CallOption) (grpc_health_v1.Health_WatchClient, error) {
	return nil, wErrUnimplemented
}
