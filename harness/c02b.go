package plugin

import (
	"bufio"
	"context"
	"crypto/tls"
	"crypto/x509"
	"encoding/base64"
	"errors"
	"io"
	"log"
	"net"
	"os/exec"
	"strconv"
	"strings"
	"fmt"
	"os"
	"os/signal"
	"time"

	hclog "github.com/hashicorp/go-hclog"
	"github.com/hashicorp/go-plugin/runner"
)


// ---------------- process / runner model ----------------
type vProc struct {
	mode    int // 0 line at tLine, 1 stdout EOF at tLine while alive, 2 silent, 3 dies at tLine before output
	line    string
	tLine   int64
	dead    chan struct{}
	isDead  bool
	started int
	killed  int
}

func (p *vProc) die() {
	if !p.isDead {
		p.isDead = true
		close(p.dead)
	}
}

type vPipe struct{ p *vProc }

func (*vPipe) Read(b []byte) (int, error) { return 0, io.EOF }
func (*vPipe) Close() error               { return nil }

type vRunner struct{ p *vProc }

func (r *vRunner) Start(ctx context.Context) error {
	r.p.started++
	if r.p.mode == 3 {
		go func() { vDaemon(); vSleepUntil(r.p.tLine); r.p.die() }()
	}
	return nil
}
func (r *vRunner) Diagnose(ctx context.Context) string { return "" }
func (r *vRunner) Stdout() io.ReadCloser               { return &vPipe{r.p} }
func (r *vRunner) Stderr() io.ReadCloser               { return &vPipe{r.p} }
func (r *vRunner) Name() string                        { return "vplugin" }
func (r *vRunner) Wait(ctx context.Context) error      { <-r.p.dead; return nil }
func (r *vRunner) Kill(ctx context.Context) error      { r.p.killed++; r.p.die(); return nil }
func (r *vRunner) ID() string                          { return "v1" }
func (r *vRunner) PluginToHost(n, a string) (string, string, error) { return n, a, nil }
func (r *vRunner) HostToPlugin(n, a string) (string, string, error) { return n, a, nil }

// ---------------- bufio models ----------------
type scanGhost struct {
	p         *vProc
	delivered bool
	text      string
}

var scanG = map[*bufio.Scanner]*scanGhost{}
var readerG = map[*bufio.Reader]*vProc{}

//verif:model bufio.NewScanner
func mNewScanner(r io.Reader) *bufio.Scanner {
	s := new(bufio.Scanner)
	scanG[s] = &scanGhost{p: r.(*vPipe).p}
	return s
}

//verif:model (*bufio.Scanner).Scan
func mScan(s *bufio.Scanner) bool {
	g := scanG[s]
	if !g.delivered {
		g.delivered = true
		switch g.p.mode {
		case 0:
			g.text = <-lineCh
			return true
		case 1:
			vSleepUntil(g.p.tLine)
			return false
		}
	}
	<-g.p.dead
	return false
}

//verif:model (*bufio.Scanner).Text
func mText(s *bufio.Scanner) string { return scanG[s].text }

//verif:model (*bufio.Scanner).Err
func mErr(s *bufio.Scanner) error { return nil }

//verif:model bufio.NewReaderSize
func mNewReaderSize(r io.Reader, n int) *bufio.Reader {
	b := new(bufio.Reader)
	readerG[b] = r.(*vPipe).p
	return b
}

//verif:model (*bufio.Reader).ReadLine
func mReadLine(b *bufio.Reader) ([]byte, bool, error) {
	<-readerG[b].dead
	return nil, false, io.EOF
}

// ---------------- context model ----------------
type vCtx struct {
	done   chan struct{}
	closed bool
}

func (c *vCtx) Deadline() (time.Time, bool) { return time.Time{}, false }
func (c *vCtx) Done() <-chan struct{}       { return c.done }
func (c *vCtx) Err() error {
	if c.closed {
		return context.Canceled
	}
	return nil
}
func (c *vCtx) Value(k any) any { return nil }

//verif:model context.Background
func mBackground() context.Context { return &vCtx{} }

//verif:model context.WithCancel
func mWithCancel(parent context.Context) (context.Context, context.CancelFunc) {
	c := &vCtx{done: make(chan struct{})}
	return c, func() {
		if !c.closed {
			c.closed = true
			close(c.done)
		}
	}
}

//verif:model context.WithTimeout
func mWithTimeout(parent context.Context, d time.Duration) (context.Context, context.CancelFunc) {
	return mWithCancel(parent)
}

// ---------------- os / net / crypto models ----------------
//verif:model os.Environ
func mEnviron() []string { return hostEnvC02 }

var hostEnvC02 = []string{"HOSTVAR=1"}

//verif:model os.MkdirTemp
func mMkdirTemp(dir, pattern string) (string, error) { return "/tmp/plugin-dir-v", nil }

//verif:model os.RemoveAll
func mRemoveAll(path string) error { return nil }

//verif:model net.ResolveTCPAddr
func mResolveTCP(network, address string) (*net.TCPAddr, error) {
	if vNondetOK("resolve_tcp", address) {
		return &net.TCPAddr{Port: 1}, nil
	}
	return nil, errors.New("resolve tcp")
}

//verif:model net.ResolveUnixAddr
func mResolveUnix(network, address string) (*net.UnixAddr, error) {
	return &net.UnixAddr{Name: address, Net: "unix"}, nil // never fails for network "unix" (net/unixsock.go)
}

var lastB64 string

//verif:model crypto/x509.NewCertPool
func mNewCertPool() *x509.CertPool { return new(x509.CertPool) }

//verif:model (*encoding/base64.Encoding).DecodeString
func mDecodeString(e *base64.Encoding, s string) ([]byte, error) {
	if vNondetOK("b64", s) {
		lastB64 = s
		return []byte{1}, nil
	}
	return nil, errors.New("b64")
}

//verif:model crypto/x509.ParseCertificate
func mParseCertificate(der []byte) (*x509.Certificate, error) {
	if vNondetOK("x509", lastB64) {
		return new(x509.Certificate), nil
	}
	return nil, errors.New("x509")
}

//verif:model (*crypto/x509.CertPool).AddCert
func mAddCert(p *x509.CertPool, c *x509.Certificate) {}

// ---------------- logger ----------------
type vLogger struct{}

func (vLogger) Log(level hclog.Level, msg string, args ...interface{}) {}
func (vLogger) Trace(msg string, args ...interface{})                   {}
func (vLogger) Debug(msg string, args ...interface{})                   {}
func (vLogger) Info(msg string, args ...interface{})                    {}
func (vLogger) Warn(msg string, args ...interface{})                    {}
func (vLogger) Error(msg string, args ...interface{})                   {}
func (vLogger) IsTrace() bool                                           { return false }
func (vLogger) IsDebug() bool                                           { return false }
func (vLogger) IsInfo() bool                                            { return false }
func (vLogger) IsWarn() bool                                            { return false }
func (vLogger) IsError() bool                                           { return false }
func (vLogger) ImpliedArgs() []interface{}                              { return nil }
func (l vLogger) With(args ...interface{}) hclog.Logger                 { return l }
func (vLogger) Name() string                                            { return "v" }
func (l vLogger) Named(name string) hclog.Logger                        { return l }
func (l vLogger) ResetNamed(name string) hclog.Logger                   { return l }
func (vLogger) SetLevel(level hclog.Level)                              {}
func (vLogger) StandardLogger(o *hclog.StandardLoggerOptions) *log.Logger { return nil }
func (vLogger) StandardWriter(o *hclog.StandardLoggerOptions) io.Writer { return nil }

// ---------- process ghost ----------
var (
	exited   bool
	exitCode int
	stdout   []string
	events   []string
	files    = map[string]bool{} // ghost file system
	nTemp    int
)

//verif:model os.Exit
func mExit(code int) { exited = true; exitCode = code; vExitThread() }

//verif:model fmt.Printf
func mPrintf(format string, a ...any) (int, error) {
	l := fmt.Sprintf(format, a...)
	stdout = append(stdout, l)
	events = append(events, "print")
	lineCh <- strings.TrimSuffix(l, "\n")
	return 0, nil
}

var tempName = map[*os.File]string{}

//verif:model os.CreateTemp
func mCreateTemp(dir, pattern string) (*os.File, error) {
	f := new(os.File)
	nTemp++
	name := fmt.Sprintf("%s/%s%d", dir, pattern, nTemp)
	tempName[f] = name
	files[name] = true
	return f, nil
}

//verif:model (*os.File).Name
func mFileName(f *os.File) string { return tempName[f] }

//verif:model (*os.File).Close
func mFileClose(f *os.File) error { return nil }

//verif:model os.Remove
func mRemove(name string) error { delete(files, name); return nil }

//verif:model os.Pipe
func mPipe() (*os.File, *os.File, error) { return new(os.File), new(os.File), nil }

//verif:model os/signal.Notify
func mNotify(c chan<- os.Signal, sig ...os.Signal) {}

var _ = signal.Notify

type vAddr struct{ path string }

func (a vAddr) Network() string { return "unix" }
func (a vAddr) String() string  { return a.path }

type vListener struct {
	path   string
	q      chan net.Conn
	closed bool
}

func (l *vListener) Accept() (net.Conn, error) { c := <-l.q; return c, nil }
func (l *vListener) Close() error              { l.closed = true; return nil }
func (l *vListener) Addr() net.Addr            { return vAddr{l.path} }

var listeners []*vListener

//verif:model net.Listen
func mListen(network, address string) (net.Listener, error) {
	l := &vListener{path: address, q: make(chan net.Conn, 1)}
	listeners = append(listeners, l)
	files[address] = true
	events = append(events, "listen")
	return l, nil
}

// ---------- crypto (opaque) ----------
//verif:model github.com/hashicorp/go-plugin.generateCert
func mGenerateCert() ([]byte, []byte, error) { return []byte("CERTPEM"), []byte("KEYPEM"), nil }

//verif:model crypto/tls.X509KeyPair
func mX509KeyPair(c, k []byte) (tls.Certificate, error) {
	return tls.Certificate{Certificate: [][]byte{[]byte("DER")}}, nil
}


//verif:model (*crypto/x509.CertPool).AppendCertsFromPEM
func mAppendCerts(p *x509.CertPool, pem []byte) bool { return true }

//verif:model (*encoding/base64.Encoding).EncodeToString
func mEncodeToString(e *base64.Encoding, b []byte) string { return "B64(" + string(b) + ")" }


var lineCh = make(chan string, 1)

type vPlugNet struct{ NetRPCUnsupportedPlugin }


// Host and plugin in one run: the host's real Start builds the environment, the plugin's real Serve reads it,
// negotiates, prints its line; the host's real Start parses that line.
func harnessC02b() {
	h1, h2 := vNondetInt("h1"), vNondetInt("h2")
	p1, p2 := vNondetInt("p1"), vNondetInt("p2")
	vAssume(h1 != h2 && p1 != p2)
	hostA, hostB := PluginSet{"a": &vPlugNet{}}, PluginSet{"b": &vPlugNet{}}
	plugA, plugB := PluginSet{"a": &vPlugNet{}}, PluginSet{"b": &vPlugNet{}}
	serve := &ServeConfig{
		HandshakeConfig:  HandshakeConfig{MagicCookieKey: "K", MagicCookieValue: "V"},
		VersionedPlugins: map[int]PluginSet{p1: plugA, p2: plugB},
		Logger:           vLogger{},
	}
	plugVers := []int{p1, p2}
	variant := vChoice(3) // 0 plain; 1 the plugin also has the legacy pair; 2 the host inherited a version list
	if variant == 1 {
		// the plugin ALSO has the legacy pair ProtocolVersion+Plugins: one more version it serves
		vCover("plugin-legacy-pair-and-versioned")
		p3 := vNondetInt("p3")
		vAssume(p3 >= 0 && p3 != p1 && p3 != p2)
		serve.HandshakeConfig.ProtocolVersion = uint(p3)
		serve.Plugins = PluginSet{"c": &vPlugNet{}}
		plugVers = append(plugVers, p3)
	}
	p := &vProc{mode: 0, dead: make(chan struct{})}
	skipHostEnv := true
	if variant == 2 {
		// the host is itself a plugin (nested plugins): it inherited a version list from its own launch, which has
		// nothing to do with what this client offers
		vCover("inherited-version-list")
		x := vNondetInt("inherited")
		vAssume(x >= 0)
		hostEnvC02 = []string{"HOSTVAR=1", "PLUGIN_PROTOCOL_VERSIONS=" + strconv.Itoa(x)}
		skipHostEnv = false
	}
	cfg := &ClientConfig{
		HandshakeConfig:  HandshakeConfig{MagicCookieKey: "K", MagicCookieValue: "V"},
		VersionedPlugins: map[int]PluginSet{h1: hostA, h2: hostB},
		Logger:           vLogger{},
		StartTimeout:     60 * time.Second,
		SkipHostEnv:      skipHostEnv,
		RunnerFunc: func(l hclog.Logger, cmd *exec.Cmd, tmp string) (runner.Runner, error) {
			for _, e := range cmd.Env { // the child's environment is what the host built
				k, v, _ := strings.Cut(e, "=")
				vSetenv(k, v)
			}
			go func() { vDaemon(); Serve(serve) }()
			return &vRunner{p}, nil
		},
	}
	c := NewClient(cfg)
	_, err := c.Start()

	common, best := false, 0
	for _, h := range []int{h1, h2} {
		for _, q := range plugVers {
			if h == q && (!common || h > best) {
				common, best = true, h
			}
		}
	}
	vAssert(len(stdout) == 1, "the plugin announced itself")
	_, rest, _ := strings.Cut(stdout[0], "|")
	verField, _, _ := strings.Cut(rest, "|")
	if common {
		vCover("common")
		vAssert(vAtoiOK(verField) && vAtoiVal(verField) == best, "C02: the line carries the highest common version")
		vAssert(err == nil, "C02: the host accepts it")
		vAssert(c.NegotiatedVersion() == best, "C02: the host reports the highest common version")
		if best == h1 {
			vAssert(c.config.Plugins["a"] != nil, "C02: the host uses the set registered under that version")
		} else {
			vAssert(c.config.Plugins["b"] != nil, "C02: the host uses the set registered under that version")
		}
	} else {
		vCover("disjoint")
		vAssert(err != nil, "C02: disjoint version sets: the host's start fails")
		vAssert(p.killed >= 1, "C02: and the plugin is terminated")
	}
	vDone()
}

var _ = signal.Notify
var _ = os.Exit
var _ = strconv.Itoa
var _ = base64.StdEncoding
var _ = errors.New
var _ = log.Printf
var _ = tls.VersionTLS12
var _ = x509.NewCertPool
