package plugin

import "time"

// Verification primitives. The bodies are dummies: the symbolic executor (/verif/engine) intercepts these
// functions by name. vNondet* return an arbitrary value of the type (an SMT variable); vAssume restricts,
// vAssert asks the solver for a counterexample, vCover marks a point that must be reachable (vacuity guard),
// vChoice/vParam are concrete case splits / bounds fixed by the run.

func vNondetInt(tag string) int                        { return 0 }
func vNondetU32(tag string) uint32                     { return 0 }
func vNondetTime(tag string) int64                     { return 0 }
func vNondetBool(tag string) bool                      { return false }
func vNondetStr(tag, nosep string) string              { return "" }
func vNondetBytes(tag string, max int) []byte          { return nil }
func vNondetOK(pred string, s string) bool             { return false }
func vChoice(n int) int                                { return 0 }
func vParam(name string) int                           { return 0 }
func vAssume(b bool)                                   {}
func vAssert(b bool, msg string)                       {}
func vCover(label string)                              {}
func vTag(tag string)                                  {}
func vDone()                                           {}
func vRecord(k string, v any)                          {}
func vSleepUntil(t int64)                              {}
func vNow() int64                                      { return 0 }
func vTimeNs(t time.Time) int64                        { return 0 }
func vDaemon()                                         {}
func vExitThread()                                     {}
func vSetenv(k, v string)                              {}
func vSymLine(name string, max int, sep string) string { return "" }
func vLineN(line string) int                           { return 0 }
func vLineField(line string, i int) string             { return "" }
func vAtoiOK(s string) bool                            { return false }
func vAtoiVal(s string) int                            { return 0 }
func vCountSep(s, sep string) int                      { return 0 }
func vSub(base string, off, cnt int) string            { return "" }
func vIsConcrete(s string) bool                        { return false }
func vFillBytes(p []byte, s string) int                { return 0 }
func vBytesRead(p []byte) string                       { return "" }
func vConcatIs(parts []string, whole string) bool      { return false }
func vCallMethod(rcvr any, method string, args any, reply any) error { return nil }

// processes: every interpreted goroutine belongs to a modelled OS process (inherited at `go`)
func vCurProc() int    { return 0 }
func vSetProc(p int)   {}
func vKillProc(p int)  {}
func vGoID() int       { return 0 }
func vClone(x any) any { return x }
func vCopyInto(dst, src any) {}
func vNewLike(p any) any { return p }
func vSetenvProc(proc int, k, v string) {}
func vLiveGoroutines() int { return 0 }
func vAnyOf(b ...bool) bool { return false }
func vAllOf(b ...bool) bool { return true }
