package plugin

import (
	"context"
	"crypto/tls"
	"crypto/x509"
	"encoding/base64"
	"fmt"
	"io"
	"log"
	"net"
	"os"
	"os/signal"
	"time"

	hclog "github.com/hashicorp/go-hclog"
)


type vPlugNet struct{ NetRPCUnsupportedPlugin }

// ---------- process ghost ----------
var (
	exited   bool
	exitCode int
	stdout   []string
	events   []string
	files    = map[string]bool{} // ghost file system
	nTemp    int
)

//verif:model os.Exit
func mExit(code int) { exited = true; exitCode = code; vExitThread() }

//verif:model fmt.Printf
func mPrintf(format string, a ...any) (int, error) {
	stdout = append(stdout, fmt.Sprintf(format, a...))
	events = append(events, "print")
	return 0, nil
}

var tempName = map[*os.File]string{}

//verif:model os.CreateTemp
func mCreateTemp(dir, pattern string) (*os.File, error) {
	f := new(os.File)
	nTemp++
	name := fmt.Sprintf("%s/%s%d", dir, pattern, nTemp)
	tempName[f] = name
	files[name] = true
	return f, nil
}

//verif:model (*os.File).Name
func mFileName(f *os.File) string { return tempName[f] }

//verif:model (*os.File).Close
func mFileClose(f *os.File) error { return nil }

//verif:model os.Remove
func mRemove(name string) error { delete(files, name); return nil }

//verif:model os.Pipe
func mPipe() (*os.File, *os.File, error) { return new(os.File), new(os.File), nil }

//verif:model os/signal.Notify
func mNotify(c chan<- os.Signal, sig ...os.Signal) {}

var _ = signal.Notify

type vAddr struct{ path string }

func (a vAddr) Network() string { return "unix" }
func (a vAddr) String() string  { return a.path }

type vListener struct {
	path   string
	q      chan net.Conn
	closed bool
}

func (l *vListener) Accept() (net.Conn, error) { c := <-l.q; return c, nil }
func (l *vListener) Close() error              { l.closed = true; return nil }
func (l *vListener) Addr() net.Addr            { return vAddr{l.path} }

var listeners []*vListener

//verif:model net.Listen
func mListen(network, address string) (net.Listener, error) {
	l := &vListener{path: address, q: make(chan net.Conn, 1)}
	listeners = append(listeners, l)
	files[address] = true
	events = append(events, "listen")
	return l, nil
}

// ---------- context ----------
type vCtx struct{}

func (vCtx) Deadline() (time.Time, bool) { return time.Time{}, false }
func (vCtx) Done() <-chan struct{}       { return nil }
func (vCtx) Err() error                  { return nil }
func (vCtx) Value(k any) any             { return nil }

//verif:model context.Background
func mBackground() context.Context { return vCtx{} }

// ---------- crypto (opaque) ----------
//verif:model github.com/hashicorp/go-plugin.generateCert
func mGenerateCert() ([]byte, []byte, error) { return []byte("CERTPEM"), []byte("KEYPEM"), nil }

//verif:model crypto/tls.X509KeyPair
func mX509KeyPair(c, k []byte) (tls.Certificate, error) {
	return tls.Certificate{Certificate: [][]byte{[]byte("DER")}}, nil
}

//verif:model crypto/x509.NewCertPool
func mNewCertPool() *x509.CertPool { return new(x509.CertPool) }

//verif:model (*crypto/x509.CertPool).AppendCertsFromPEM
func mAppendCerts(p *x509.CertPool, pem []byte) bool { return true }

//verif:model (*encoding/base64.Encoding).EncodeToString
func mEncodeToString(e *base64.Encoding, b []byte) string { return "B64(" + string(b) + ")" }

// ---------- logger ----------
type vLogger struct{}

func (vLogger) Log(level hclog.Level, msg string, args ...interface{}) {}
func (vLogger) Trace(msg string, args ...interface{})                   {}
func (vLogger) Debug(msg string, args ...interface{})                   {}
func (vLogger) Info(msg string, args ...interface{})                    {}
func (vLogger) Warn(msg string, args ...interface{})                    {}
func (vLogger) Error(msg string, args ...interface{})                   {}
func (vLogger) IsTrace() bool                                           { return false }
func (vLogger) IsDebug() bool                                           { return false }
func (vLogger) IsInfo() bool                                            { return false }
func (vLogger) IsWarn() bool                                            { return false }
func (vLogger) IsError() bool                                           { return false }
func (vLogger) ImpliedArgs() []interface{}                              { return nil }
func (l vLogger) With(args ...interface{}) hclog.Logger                 { return l }
func (vLogger) Name() string                                            { return "v" }
func (l vLogger) Named(name string) hclog.Logger                        { return l }
func (l vLogger) ResetNamed(name string) hclog.Logger                   { return l }
func (vLogger) SetLevel(level hclog.Level)                              {}
func (vLogger) StandardLogger(o *hclog.StandardLoggerOptions) *log.Logger { return nil }
func (vLogger) StandardWriter(o *hclog.StandardLoggerOptions) io.Writer { return nil }

func harnessC16() {
	cfgKey := "COOKIE"
	if vChoice(2) == 1 {
		cfgKey = ""
	}
	cfgVal := vNondetStr("cfgval", "")
	envSet := vChoice(2) == 1
	envVal := vNondetStr("envval", "")
	if envSet {
		vSetenv("COOKIE", envVal)
	}
	muxMode := vChoice(4) // 0 unset, 1 "true", 2 some other non-empty value, 3 set but empty
	muxVal := vNondetStr("muxval", "")
	switch muxMode {
	case 1:
		vSetenv("PLUGIN_MULTIPLEX_GRPC", "true")
	case 2:
		vAssume(muxVal != "")
		vSetenv("PLUGIN_MULTIPLEX_GRPC", muxVal)
	case 3:
		vSetenv("PLUGIN_MULTIPLEX_GRPC", "")
	}
	if vChoice(2) == 1 {
		vSetenv("PLUGIN_CLIENT_CERT", "CLIENTCERTPEM")
	}
	opts := &ServeConfig{
		HandshakeConfig: HandshakeConfig{ProtocolVersion: 1, MagicCookieKey: cfgKey, MagicCookieValue: cfgVal},
		Plugins:         PluginSet{"a": &vPlugNet{}},
		Logger:          vLogger{},
	}
	go func() { vDaemon(); Serve(opts) }()
	vSleepUntil(1) // let the plugin run until it exits or sits in its final select

	cookieOK := cfgKey != "" && cfgVal != "" && envSet && envVal == cfgVal
	if !cookieOK {
		vCover("refused")
		vAssert(exited && exitCode == 1, "C16: wrong or missing cookie exits with status 1")
		vAssert(len(stdout) == 0, "C16: nothing is printed to stdout without the cookie")
		vAssert(len(listeners) == 0, "C16: no listener is opened without the cookie")
		vDone()
	}
	vCover("serving")
	vAssert(!exited, "C16: with the cookie the plugin serves")
	vAssert(len(stdout) == 1, "C16: exactly one line on stdout")
	vAssert(len(events) == 2 && events[0] == "listen" && events[1] == "print", "C16: the listener exists before the line is printed")
	seps := vCountSep(stdout[0], "|")
	if muxMode == 0 || muxMode == 3 {
		vAssert(seps == 5, "C16: six fields when the host did not signal multiplexing")
	} else {
		vAssert(seps == 6, "C16: seven fields exactly when the host signalled multiplexing")
	}
	vDone()
}
