package plugin

import (
	"strconv"
	"strings"
)


type vPlugNet struct{ NetRPCUnsupportedPlugin }

// harnessC02a: host offers {h1,h2} (versioned), plugin serves {p1,p2} (versioned);
// env string is built the way Client.Start builds it; protocolVersion and
// checkProtoVersion are the real functions.
func harnessC02a() {
	h1, h2 := vNondetInt("h1"), vNondetInt("h2")
	p1, p2 := vNondetInt("p1"), vNondetInt("p2")
	vAssume(h1 != h2)
	vAssume(p1 != p2)

	hostA, hostB := PluginSet{"a": &vPlugNet{}}, PluginSet{"b": &vPlugNet{}}
	plugA, plugB := PluginSet{"a": &vPlugNet{}}, PluginSet{"b": &vPlugNet{}}
	host := &ClientConfig{VersionedPlugins: map[int]PluginSet{h1: hostA, h2: hostB}}
	serve := &ServeConfig{VersionedPlugins: map[int]PluginSet{p1: plugA, p2: plugB}}

	// what Client.Start does to announce its versions
	var versionStrings []string
	for v := range host.VersionedPlugins {
		versionStrings = append(versionStrings, strconv.Itoa(v))
	}
	vSetenv("PLUGIN_PROTOCOL_VERSIONS", strings.Join(versionStrings, ","))

	ver, proto, set := protocolVersion(serve)
	_ = proto

	c := &Client{config: host}
	got, gotSet, err := c.checkProtoVersion(strconv.Itoa(ver))
	vRecord("out.ver", ver)
	vRecord("out.err", err != nil)
	vRecord("out.got", got)

	// reference: highest common version
	common := false
	best := 0
	for _, h := range []int{h1, h2} {
		for _, p := range []int{p1, p2} {
			if h == p && (!common || h > best) {
				common, best = true, h
			}
		}
	}
	if common {
		vCover("common")
		vAssert(ver == best, "plugin announces the highest common version")
		vAssert(err == nil, "host accepts the announced version")
		vAssert(got == best, "host reports the announced version")
		if best == p1 {
			vAssert(&set == &set && len(set) == 1 && set["a"] != nil, "plugin uses the set registered under the version (A)")
		} else {
			vAssert(set["b"] != nil, "plugin uses the set registered under the version (B)")
		}
		if best == h1 {
			vAssert(gotSet["a"] != nil, "host uses the set registered under the version (A)")
		} else {
			vAssert(gotSet["b"] != nil, "host uses the set registered under the version (B)")
		}
	} else {
		vCover("disjoint")
		vAssert(err != nil, "disjoint sets: host start fails")
		lowest := p1
		if p2 < p1 {
			lowest = p2
		}
		vAssert(ver == lowest, "no common version: plugin offers its lowest")
	}
}
