package plugin

import (
	"io"
	"net"

	"github.com/hashicorp/yamux"
)


type sessGhost struct{ acceptQ chan *yamux.Stream }
type streamGhost struct {
	id      uint32
	closed  bool
	acked   []uint32
	aborted bool // the peer opened the stream and dropped it before writing the ID
}

var sessG = map[*yamux.Session]*sessGhost{}
var strmG = map[*yamux.Stream]*streamGhost{}

//verif:model (*github.com/hashicorp/yamux.Session).AcceptStream
func mAcceptStream(s *yamux.Session) (*yamux.Stream, error) {
	st, ok := <-sessG[s].acceptQ
	if !ok {
		return nil, io.EOF
	}
	return st, nil
}

//verif:model (*github.com/hashicorp/yamux.Stream).Close
func mStreamClose(s *yamux.Stream) error {
	strmG[s].closed = true
	return nil
}

func vStreamReadU32(r io.Reader) (uint32, error) {
	g := strmG[r.(*yamux.Stream)]
	if g.aborted {
		return 0, io.ErrUnexpectedEOF
	}
	return g.id, nil
}
func vStreamWriteU32(w io.Writer, v uint32) error {
	g := strmG[w.(*yamux.Stream)]
	g.acked = append(g.acked, v)
	return nil
}

func newInbound(id uint32) *yamux.Stream {
	st := new(yamux.Stream)
	strmG[st] = &streamGhost{id: id}
	return st
}

const sec = int64(1000000000)

// History: two inbound dials (ids NOT assumed distinct) at t1<=t2, optionally one local Accept(a) at tA;
// then, after every timer has expired, a fresh matched pair must still succeed.
func harnessC09a() {
	sess := new(yamux.Session)
	g := &sessGhost{acceptQ: make(chan *yamux.Stream, 8)}
	sessG[sess] = g
	m := newMuxBroker(sess)
	go func() { vDaemon(); m.Run() }()

	x1, x2 := vNondetU32("x1"), vNondetU32("x2")
	t1, t2 := vNondetTime("t1"), vNondetTime("t2")
	vAssume(t1 <= t2)
	in1, in2 := newInbound(x1), newInbound(x2)
	var dropped *yamux.Stream
	if vChoice(2) == 1 {
		// a peer that opens a stream and drops it before the ID is written (what MuxBroker.Dial itself does when its write
		// fails, or a peer that dies at that moment): that one stream is discarded, the broker carries on
		vCover("stream-dropped-before-id")
		dropped = new(yamux.Stream)
		strmG[dropped] = &streamGhost{aborted: true}
	}
	go func() {
		vSleepUntil(t1)
		if dropped != nil {
			g.acceptQ <- dropped
		}
		g.acceptQ <- in1
		vSleepUntil(t2)
		g.acceptQ <- in2
	}()

	a, tA := vNondetU32("a"), vNondetTime("tA")
	last := t2
	var accepted net.Conn
	timedOut := false
	if vNondetBool("withAccept") {
		vCover("with-accept")
		if tA > last {
			last = tA
		}
		go func() {
			vSleepUntil(tA)
			t0 := vNow()
			c, err := m.Accept(a)
			// a dial for a that arrives inside the accept's window is matched - whatever else is pending on other IDs
			if x1 != x2 {
				if x2 == a && t2 >= tA && t2 <= tA+4*sec {
					vCover("dial-inside-window")
					vAssert(err == nil, "C06: a dial that arrives inside the accept's pending window is matched, whatever is pending on other IDs")
				}
				if x1 == a && t1 >= tA && t1 <= tA+4*sec {
					vAssert(err == nil, "C06: a dial that arrives inside the accept's pending window is matched, whatever is pending on other IDs")
				}
			}
			if err != nil {
				vCover("accept-timed-out")
				timedOut = true
				vAssert(vNow()-t0 <= 5*sec, "unmatched Accept returns an error within 5 s")
			} else {
				vCover("accept-matched")
				accepted = c
				vAssert(strmG[c.(*yamux.Stream)].id == a, "Accept(a) returns a stream dialled for a")
			}
		}()
	}

	f := vNondetU32("f")
	vAssume(f != x1 && f != x2 && f != a)
	vSleepUntil(last + 11*sec)
	if timedOut && vChoice(2) == 1 {
		// not a fresh ID: the one whose Accept timed out is tried again, now with a dial
		vCover("retry-of-timed-out-accept")
		f = a
	}
	// a dial nobody accepts ends: its stream is closed by the broker, so the remote Dial's wait for the ack returns
	for _, in := range []*yamux.Stream{in1, in2} {
		if accepted != net.Conn(in) {
			vAssert(strmG[in].closed, "C09: an inbound dial nobody accepted is closed within the pending window (its dialler gets an error)")
		} else {
			vAssert(!strmG[in].closed && len(strmG[in].acked) == 1, "C09: the accepted stream is acknowledged and left open")
		}
	}
	if dropped != nil {
		vAssert(strmG[dropped].closed, "C09: a stream whose ID cannot be read is closed")
	}
	st := newInbound(f)
	g.acceptQ <- st
	c, err := m.Accept(f)
	vAssert(err == nil, "fresh pair succeeds after the history")
	vAssert(c == net.Conn(st), "fresh Accept returns the fresh stream")
	vCover("probe-done")
}
