package plugin

import (
	"time"
	"bufio"
	"bytes"
	"context"
	"io"
	"log"

	empty "github.com/golang/protobuf/ptypes/empty"
	hclog "github.com/hashicorp/go-hclog"
	"github.com/hashicorp/go-plugin/internal/plugin"
	"google.golang.org/grpc/metadata"
)


// ---------- the plugin's two pipes: a source yields its writes (one pipe read returns what one write left, at most as
// much as was asked for), then blocks ----------
type vSrc struct {
	chunks []string // the writes
	next   int
	off    int     // bytes of chunks[next] already handed out
	at     []int64 // optional: the instant each write happens
	eof    bool    // after the last write the stream ends (the plugin closed it) instead of staying silent
}

func (*vSrc) Read(p []byte) (int, error) { return 0, io.EOF }

// bufio.Reader with its default 4096-byte buffer: when the buffer is empty it is filled by ONE read of the source (up to
// 4096 bytes), and Read hands out at most len(p) of what is buffered; the rest stays in THIS reader's buffer.
type rdGhost struct {
	src    *vSrc
	w      string // the write the buffered bytes come from
	off, n int    // buffered: w[off : off+n]
}

var readerG = map[*bufio.Reader]*rdGhost{}
var never = make(chan struct{})

//verif:model bufio.NewReader
func mNewReader(r io.Reader) *bufio.Reader {
	b := new(bufio.Reader)
	readerG[b] = &rdGhost{src: r.(*vSrc)}
	return b
}

//verif:model (*bufio.Reader).Read
func mBufRead(b *bufio.Reader, p []byte) (int, error) {
	g := readerG[b]
	if g.n == 0 {
		s := g.src
		if s.next >= len(s.chunks) {
			if s.eof {
				return 0, io.EOF
			}
			vDaemon()
			<-never
		}
		if s.next < len(s.at) && s.off == 0 {
			vSleepUntil(s.at[s.next])
		}
		w := s.chunks[s.next]
		take := len(w) - s.off
		if take > 4096 {
			take = 4096
		}
		g.w, g.off, g.n = w, s.off, take
		s.off += take
		if s.off == len(w) {
			s.next++
			s.off = 0
		}
	}
	k := g.n
	if k > len(p) {
		k = len(p)
	}
	var chunk string
	if g.off == 0 && k == len(g.w) {
		chunk = g.w // a whole write in one piece
	} else {
		chunk = vSub(g.w, g.off, k)
	}
	g.off += k
	g.n -= k
	return vFillBytes(p, chunk), nil
}

// ---------- the gRPC stream between StreamStdio (plugin) and Run (host): Send marshals at call time ----------
type wire struct {
	ch   plugin.StdioData_Channel
	data string
}

var msgs = make(chan wire, 8)

type vCtx struct{}

func (vCtx) Deadline() (t interface{ IsZero() bool }, ok bool) { return nil, false }

type srvStream struct{ ctx context.Context }

func (s *srvStream) Send(d *plugin.StdioData) error { msgs <- wire{d.Channel, vBytesRead(d.Data)}; return nil }
func (s *srvStream) SetHeader(metadata.MD) error   { return nil }
func (s *srvStream) SendHeader(metadata.MD) error  { return nil }
func (s *srvStream) SetTrailer(metadata.MD)        {}
func (s *srvStream) Context() context.Context      { return s.ctx }
func (s *srvStream) SendMsg(m interface{}) error   { return nil }
func (s *srvStream) RecvMsg(m interface{}) error   { return nil }

type cliStream struct{ ctx context.Context }

func (c *cliStream) Recv() (*plugin.StdioData, error) {
	m := <-msgs
	return &plugin.StdioData{Channel: m.ch, Data: []byte(m.data)}, nil
}
func (c *cliStream) Header() (metadata.MD, error) { return nil, nil }
func (c *cliStream) Trailer() metadata.MD         { return nil }
func (c *cliStream) CloseSend() error             { return nil }
func (c *cliStream) Context() context.Context     { return c.ctx }
func (c *cliStream) SendMsg(m interface{}) error  { return nil }
func (c *cliStream) RecvMsg(m interface{}) error  { return nil }

// a context that is never done
type bgCtx struct{}

func (bgCtx) Done() <-chan struct{}             { return nil }
func (bgCtx) Err() error                        { return nil }
func (bgCtx) Deadline() (time.Time, bool)       { return time.Time{}, false }
func (bgCtx) Value(key interface{}) interface{} { return nil }

// bytes.NewReader + io.Copy, as used by grpcStdioClient.Run
var bytesOf = map[*bytes.Reader]string{}

//verif:model bytes.NewReader
func mBytesNewReader(b []byte) *bytes.Reader {
	r := new(bytes.Reader)
	bytesOf[r] = string(b)
	return r
}

//verif:model io.Copy
func mCopy(dst io.Writer, src io.Reader) (int64, error) {
	s := bytesOf[src.(*bytes.Reader)]
	n, err := dst.Write([]byte(s))
	return int64(n), err
}

type vWriter struct{ got []string }

func (w *vWriter) Write(p []byte) (int, error) { w.got = append(w.got, string(p)); return len(p), nil }

type vLogger struct{}

func (vLogger) Log(level hclog.Level, msg string, args ...interface{}) {}
func (vLogger) Trace(msg string, args ...interface{})                   {}
func (vLogger) Debug(msg string, args ...interface{})                   {}
func (vLogger) Info(msg string, args ...interface{})                    {}
func (vLogger) Warn(msg string, args ...interface{})                    {}
func (vLogger) Error(msg string, args ...interface{})                   {}
func (vLogger) IsTrace() bool                                           { return false }
func (vLogger) IsDebug() bool                                           { return false }
func (vLogger) IsInfo() bool                                            { return false }
func (vLogger) IsWarn() bool                                            { return false }
func (vLogger) IsError() bool                                           { return false }
func (vLogger) ImpliedArgs() []interface{}                              { return nil }
func (l vLogger) With(args ...interface{}) hclog.Logger                 { return l }
func (vLogger) Name() string                                            { return "v" }
func (l vLogger) Named(name string) hclog.Logger                        { return l }
func (l vLogger) ResetNamed(name string) hclog.Logger                   { return l }
func (vLogger) SetLevel(level hclog.Level)                              {}
func (vLogger) StandardLogger(o *hclog.StandardLoggerOptions) *log.Logger { return nil }
func (vLogger) StandardWriter(o *hclog.StandardLoggerOptions) io.Writer { return nil }

func chunk(tag string) string {
	c := vNondetStr(tag, "")
	vAssume(len(c) >= 1 && len(c) <= 1024)
	return c
}

// harnessC11large: one stdout write of symbolic length 1..5000 (either side of the 1 KiB chunk and of bufio's 4 KiB
// buffer), then a short one: what SyncStdout receives, piece by piece, is exactly the first write followed by the second.
func harnessC11large() {
	W := vNondetStr("W", "")
	vAssume(len(W) >= 1 && len(W) <= 5000)
	o2 := chunk("o2")
	vAssume(len(o2) <= 100)
	srcOut, srcErr := &vSrc{chunks: []string{W, o2}}, &vSrc{}
	srv := newGRPCStdioServer(vLogger{}, srcOut, srcErr)
	go func() { vDaemon(); srv.StreamStdio(&empty.Empty{}, &srvStream{bgCtx{}}) }()
	wOut, wErr := &vWriter{}, &vWriter{}
	cl := &grpcStdioClient{log: vLogger{}, stdioClient: &cliStream{bgCtx{}}}
	go func() { vDaemon(); cl.Run(wOut, wErr) }()
	vSleepUntil(1)
	n := len(wOut.got)
	vAssert(n >= 2 && n <= 7, "C11: the large write and the small one both arrive")
	vAssert(wOut.got[n-1] == o2, "C11: the write after a large one arrives unchanged")
	vAssert(vConcatIs(wOut.got[:n-1], W), "C11: a write larger than one chunk arrives complete and in order (nothing dropped between chunks)")
	vAssert(len(wErr.got) == 0, "C11: nothing crosses streams")
	if len(W) > 4096 {
		vCover("beyond-bufio-buffer")
	} else if len(W) > 1024 {
		vCover("several-chunks")
	} else {
		vCover("one-chunk")
	}
	vDone()
}

// harnessC11eof: the plugin closes one of its two streams (stderr ends after one write) and goes on writing to the
// other: the surviving stream keeps being delivered.
func harnessC11eof() {
	o1, o2, e1 := chunk("o1"), chunk("o2"), chunk("e1")
	srcOut := &vSrc{chunks: []string{o1, o2}, at: []int64{0, 2000000000}}
	srcErr := &vSrc{chunks: []string{e1}, eof: true}
	if vChoice(2) == 1 { // or the other way round
		vCover("stdout-closed")
		srcOut, srcErr = &vSrc{chunks: []string{e1}, eof: true}, &vSrc{chunks: []string{o1, o2}, at: []int64{0, 2000000000}}
	} else {
		vCover("stderr-closed")
	}
	srv := newGRPCStdioServer(vLogger{}, srcOut, srcErr)
	go func() { vDaemon(); srv.StreamStdio(&empty.Empty{}, &srvStream{bgCtx{}}) }()
	wOut, wErr := &vWriter{}, &vWriter{}
	cl := &grpcStdioClient{log: vLogger{}, stdioClient: &cliStream{bgCtx{}}}
	go func() { vDaemon(); cl.Run(wOut, wErr) }()
	vSleepUntil(5000000000)
	long, short := wOut, wErr
	if len(srcOut.chunks) == 1 {
		long, short = wErr, wOut
	}
	vAssert(len(short.got) == 1 && short.got[0] == e1, "C11: what was written to a stream before the plugin closed it is delivered")
	vAssert(len(long.got) == 2 && long.got[0] == o1 && long.got[1] == o2, "C11: after the plugin closed one of its streams, what it writes to the other is still delivered")
	vCover("delivered")
	vDone()
}

func harnessC11() {
	o1, o2, e1 := chunk("o1"), chunk("o2"), chunk("e1")
	srcOut, srcErr := &vSrc{chunks: []string{o1, o2}}, &vSrc{chunks: []string{e1}}
	srv := newGRPCStdioServer(vLogger{}, srcOut, srcErr) // starts the two real copyChan goroutines
	go func() { vDaemon(); srv.StreamStdio(&empty.Empty{}, &srvStream{bgCtx{}}) }()
	wOut, wErr := &vWriter{}, &vWriter{}
	cl := &grpcStdioClient{log: vLogger{}, stdioClient: &cliStream{bgCtx{}}}
	go func() { vDaemon(); cl.Run(wOut, wErr) }()
	vSleepUntil(1) // everything that can happen has happened

	vAssert(len(wOut.got) == 2, "C11: every stdout chunk is delivered once to SyncStdout")
	vAssert(wOut.got[0] == o1 && wOut.got[1] == o2, "C11: stdout bytes arrive unchanged and in order")
	vAssert(len(wErr.got) == 1 && wErr.got[0] == e1, "C11: stderr bytes arrive unchanged on SyncStderr, nothing crosses streams")
	vCover("delivered")
	vDone()
}
