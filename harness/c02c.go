package plugin

import (
	"context"
	"strconv"
	"strings"

	"google.golang.org/grpc"
)

type vPlugG struct{ NetRPCUnsupportedPlugin }

func (vPlugG) GRPCServer(b *GRPCBroker, s *grpc.Server) error { return nil }
func (vPlugG) GRPCClient(ctx context.Context, b *GRPCBroker, c *grpc.ClientConn) (interface{}, error) {
	return nil, nil
}

// harnessC02n: up to n versioned sets per side (n = 2 or 3, versions arbitrary distinct ints), optionally the legacy
// ProtocolVersion+Plugins pair on either side, a gRPC server factory configured or not, plugin sets of either kind, and
// the version list the plugin receives either exactly what the host announces, or missing, or with one entry damaged.
// The plugin side is the real protocolVersion, the host side the real checkProtoVersion; the host's folding of the
// legacy pair is written as Client.Start does it (the composed run checks Start itself).
func harnessC02n() {
	n := vParam("n")
	hostSets, plugSets := map[int]PluginSet{}, map[int]PluginSet{}
	hostTag, plugTag := map[int]string{}, map[int]string{}
	plugGRPC := map[int]bool{}
	var hv, pv []int
	for i := 0; i < n; i++ {
		h, p := vNondetInt("h"+strconv.Itoa(i)), vNondetInt("p"+strconv.Itoa(i))
		for _, o := range hv {
			vAssume(h != o)
		}
		for _, o := range pv {
			vAssume(p != o)
		}
		hv, pv = append(hv, h), append(pv, p)
		hostSets[h] = PluginSet{"set": &vPlugNet{}}
		hostTag[h] = "h" + strconv.Itoa(i)
		if vChoice(2) == 1 {
			plugSets[p] = PluginSet{"set": &vPlugG{}}
			plugGRPC[p] = true
		} else {
			plugSets[p] = PluginSet{"set": &vPlugNet{}}
		}
		plugTag[p] = "p" + strconv.Itoa(i)
	}
	host := &ClientConfig{VersionedPlugins: hostSets}
	serve := &ServeConfig{VersionedPlugins: plugSets}
	grpcServer := vChoice(2) == 1
	if grpcServer {
		serve.GRPCServer = func(o []grpc.ServerOption) *grpc.Server { return nil }
	}
	// legacy pair on the host: used only if its version is not already a versioned key (Start)
	if vChoice(2) == 1 {
		hl := vNondetInt("hl")
		vAssume(hl >= 0)
		host.ProtocolVersion = uint(hl)
		host.Plugins = PluginSet{"set": &vPlugNet{}}
		if _, ok := host.VersionedPlugins[hl]; !ok {
			host.VersionedPlugins[hl] = host.Plugins
			hostTag[hl] = "hl"
			hv = append(hv, hl)
		}
		vCover("host-legacy")
	}
	// legacy pair on the plugin: overrides a versioned key of the same number (protocolVersion)
	if vChoice(2) == 1 {
		pl := vNondetInt("pl")
		vAssume(pl >= 0)
		serve.ProtocolVersion = uint(pl)
		serve.Plugins = PluginSet{"set": &vPlugNet{}}
		found := false
		for _, o := range pv {
			if o == pl {
				found = true
			}
		}
		if !found {
			pv = append(pv, pl)
		}
		plugTag[pl] = "pl"
		plugGRPC[pl] = false
		vCover("plugin-legacy")
	}

	// what the host announces: one entry per key of its (folded) versioned map, in the map's iteration order
	var versionStrings []string
	var sent []int
	for v := range host.VersionedPlugins {
		versionStrings = append(versionStrings, strconv.Itoa(v))
		sent = append(sent, v)
	}
	switch vChoice(3) {
	case 0:
		vSetenv("PLUGIN_PROTOCOL_VERSIONS", strings.Join(versionStrings, ","))
	case 1:
		vCover("no-list")
		sent = nil
	case 2:
		vCover("damaged-list")
		junk := vNondetStr("junk", ",")
		vAssume(!vAtoiOK(junk))
		versionStrings[0] = junk // one entry is not a number: it must simply be ignored
		sent = sent[1:]
		vSetenv("PLUGIN_PROTOCOL_VERSIONS", strings.Join(versionStrings, ","))
	}

	ver, proto, set := protocolVersion(serve)

	// reference: highest version both announced (as received) and served; else the plugin's lowest
	common, best := false, 0
	for _, h := range sent {
		for _, p := range pv {
			if h == p && (!common || h > best) {
				common, best = true, h
			}
		}
	}
	lowest := pv[0]
	for _, p := range pv {
		if p < lowest {
			lowest = p
		}
	}
	want := lowest
	if common {
		want = best
		vCover("common")
	} else {
		vCover("fallback-lowest")
	}
	vAssert(ver == want, "C02: the plugin announces the highest common version, or its lowest when there is none")
	vAssert(len(set) == 1 && set["set"] != nil, "C02: the plugin uses a registered set")
	if plugTag[want] == "pl" {
		vAssert(&serve.Plugins != nil && set["set"] == serve.Plugins["set"], "C02: the plugin uses the set registered under the announced version (legacy pair)")
	} else {
		vAssert(set["set"] == plugSets[want]["set"], "C02: the plugin uses the set registered under the announced version")
	}
	if grpcServer && plugGRPC[want] {
		vAssert(proto == ProtocolGRPC, "C02: the wire protocol is the chosen set's (gRPC)")
	} else {
		vAssert(proto == ProtocolNetRPC, "C02: the wire protocol is the chosen set's (net/rpc)")
	}

	c := &Client{config: host}
	got, gotSet, err := c.checkProtoVersion(strconv.Itoa(ver))
	offered := false
	for _, h := range hv {
		if h == ver {
			offered = true
		}
	}
	if offered {
		vAssert(err == nil && got == ver, "C02: the host accepts and reports a version it offered")
		vAssert(gotSet["set"] == host.VersionedPlugins[ver]["set"], "C02: the host uses the set registered under the negotiated version")
	} else {
		vCover("host-refuses")
		vAssert(err != nil, "C02: the host refuses a version it did not offer (incompatible-version error)")
	}
	vDone()
}
