package plugin

import (
	"bufio"
	"bytes"
	"encoding/json"
	"errors"
	"io"
	"log"
	"strings"
	"time"

	hclog "github.com/hashicorp/go-hclog"
)


// ---------- stderr source: lines with symbolic lengths, read through a model of bufio.Reader.ReadLine ----------
type lineSrc struct {
	lines []string
	term  []int // 0 "\n", 1 "\r\n", 2 none (only last)
	idx   int
	off   int
	size  int
}

type vPipe struct{ src *lineSrc }

func (*vPipe) Read(b []byte) (int, error) { return 0, io.EOF }

var readerG = map[*bufio.Reader]*lineSrc{}

//verif:model bufio.NewReaderSize
func mNewReaderSize(r io.Reader, n int) *bufio.Reader {
	b := new(bufio.Reader)
	src := r.(*vPipe).src
	if n < 16 {
		n = 16
	}
	src.size = n
	readerG[b] = src
	return b
}

// Exact chunking of ReadLine (bufio.go): a line whose content plus terminator fits in the buffer is
// returned whole without terminator; otherwise a full-buffer prefix with isPrefix=true.
//verif:model (*bufio.Reader).ReadLine
func mReadLine(b *bufio.Reader) ([]byte, bool, error) {
	g := readerG[b]
	if g.idx >= len(g.lines) {
		return nil, false, io.EOF
	}
	L := g.lines[g.idx]
	lastLineIdx = g.idx
	rem := len(L) - g.off
	need := rem + 1
	if g.term[g.idx] == 1 {
		need = rem + 2
	}
	if g.term[g.idx] == 2 {
		need = rem // no terminator: returned at EOF once buffered
		if rem == 0 {
			g.idx++
			return nil, false, io.EOF
		}
	}
	if need <= g.size {
		chunk := vSub(L, g.off, rem)
		if g.off == 0 {
			chunk = L
		}
		g.idx++
		g.off = 0
		return []byte(chunk), false, nil
	}
	chunk := vSub(L, g.off, g.size)
	g.off += g.size
	return []byte(chunk), true, nil
}

// ---------- JSON / time models ----------
func jsonField(m map[string]interface{}, k string) int {
	c := vChoice(3)
	switch c {
	case 1:
		m[k] = vNondetStr(k, "")
	case 2:
		m[k] = float64(5)
	}
	return c
}

var jsMsg, jsLvl, jsTS int
var jsKind int
var jsMessage, jsLevel string
var tsBad bool

// What a line IS - not JSON / a JSON object with these @-fields / JSON null - is an attribute of the line, fixed before
// go-plugin sees it; json.Unmarshal then answers accordingly. A line that is a JSON object starts with '{', possibly
// after white space.
// jsTrail: the line is a JSON object FOLLOWED by further bytes that are not white space. As a whole it is not JSON
// (json.Unmarshal fails: a text line); a json.Decoder reading one value from it succeeds and never looks at the rest.
var jsTrail bool
var jsPlanned bool
var jsPlanMap map[string]interface{}
var jsPlanLine string

func planJSON(line string) {
	jsPlanned, jsPlanLine = true, line
	jsKind = vChoice(3)
	if jsKind != 1 {
		return
	}
	if len(line) > 0 {
		c0 := line[0]
		vAssume(vAnyOf(c0 == '{', c0 == ' ', c0 == '\t', c0 == '\r', c0 == '\n'))
	} else {
		vAssume(false)
	}
	m := map[string]interface{}{}
	jsMsg = jsonField(m, "@message")
	if jsMsg == 1 {
		jsMessage = m["@message"].(string)
	}
	jsLvl = jsonField(m, "@level")
	if jsLvl == 1 {
		jsLevel = m["@level"].(string)
	}
	jsTS = jsonField(m, "@timestamp")
	if vChoice(2) == 1 {
		m["extra"] = vNondetStr("extraval", "")
	}
	jsPlanMap = m
	if vChoice(2) == 1 {
		jsTrail = true
		vCover("object-then-trailing-bytes")
	}
}

func jsonValue(data []byte, raw *map[string]interface{}, wholeInput bool) error {
	if jsForce0 && lastLineIdx == 0 { // the first of two lines is text
		return errors.New("json: syntax error")
	}
	if jsAllText { // a run whose lines are all text
		return errors.New("json: syntax error")
	}
	if !jsPlanned {
		planJSON(string(data))
	}
	switch jsKind {
	case 0:
		return errors.New("json: syntax error")
	case 2:
		return nil // the JSON value null: no error, map untouched
	}
	if jsTrail && wholeInput {
		return errors.New("json: invalid character after top-level value")
	}
	*raw = jsPlanMap
	return nil
}

// json.Decoder over a bytes.Reader: Decode reads ONE value and leaves what follows it unread
var brG = map[*bytes.Reader][]byte{}
var decG = map[*json.Decoder][]byte{}

//verif:model bytes.NewReader
func mBytesNewReader(b []byte) *bytes.Reader {
	r := new(bytes.Reader)
	brG[r] = b
	return r
}

//verif:model encoding/json.NewDecoder
func mNewDecoder(r io.Reader) *json.Decoder {
	d := new(json.Decoder)
	if br, ok := r.(*bytes.Reader); ok {
		decG[d] = brG[br]
	} else {
		decG[d], _ = io.ReadAll(r)
	}
	return d
}

//verif:model (*encoding/json.Decoder).Decode
func mDecode(d *json.Decoder, v any) error {
	return jsonValue(decG[d], v.(*map[string]interface{}), false)
}

//verif:model encoding/json.Unmarshal
func mUnmarshal(data []byte, v any) error {
	return jsonValue(data, v.(*map[string]interface{}), true)
}

//verif:model time.Parse
func mTimeParse(layout, value string) (time.Time, error) {
	if vChoice(2) == 1 {
		tsBad = true
		return time.Time{}, errors.New("parse time")
	}
	return time.Time{}, nil
}

//verif:model (time.Time).Format
func mTimeFormat(t time.Time, layout string) string { return "TS" }

// ---------- recording writer and logger ----------
type vWriter struct{ chunks []string }

func (w *vWriter) Write(p []byte) (int, error) { w.chunks = append(w.chunks, string(p)); return len(p), nil }

type logRec struct {
	level string
	msg   string
	args  []interface{}
}
type vLogger struct{ recs *[]logRec }

func (l vLogger) add(level, msg string, args []interface{}) { *l.recs = append(*l.recs, logRec{level, msg, args}) }
func (l vLogger) Log(level hclog.Level, msg string, args ...interface{}) {}
func (l vLogger) Trace(msg string, args ...interface{})                   { l.add("trace", msg, args) }
func (l vLogger) Debug(msg string, args ...interface{})                   { l.add("debug", msg, args) }
func (l vLogger) Info(msg string, args ...interface{})                    { l.add("info", msg, args) }
func (l vLogger) Warn(msg string, args ...interface{})                    { l.add("warn", msg, args) }
func (l vLogger) Error(msg string, args ...interface{})                   { l.add("error", msg, args) }
func (vLogger) IsTrace() bool                                             { return false }
func (vLogger) IsDebug() bool                                             { return false }
func (vLogger) IsInfo() bool                                              { return false }
func (vLogger) IsWarn() bool                                              { return false }
func (vLogger) IsError() bool                                             { return false }
func (vLogger) ImpliedArgs() []interface{}                                { return nil }
func (l vLogger) With(args ...interface{}) hclog.Logger                   { return l }
func (vLogger) Name() string                                              { return "v" }
func (l vLogger) Named(name string) hclog.Logger                          { return l }
func (l vLogger) ResetNamed(name string) hclog.Logger                     { return l }
func (vLogger) SetLevel(level hclog.Level)                                {}
func (vLogger) StandardLogger(o *hclog.StandardLoggerOptions) *log.Logger { return nil }
func (vLogger) StandardWriter(o *hclog.StandardLoggerOptions) io.Writer   { return nil }

func harnessC10() {
	L := vNondetStr("L0", "\n")
	B := vNondetInt("B")
	vAssume(B >= 16 && B <= 1<<20)
	vAssume(len(L) <= 3*B) // at most three buffer-fulls: bounds the chunk loop
	src := &lineSrc{lines: []string{L}, term: []int{vChoice(3)}}
	vAssume(!(src.term[0] == 2 && len(L) == 0)) // an empty unterminated tail is not a line
	w := &vWriter{}
	var recs []logRec
	cfg := &ClientConfig{Stderr: w, Logger: vLogger{&recs}, PluginLogBufferSize: B}
	c := &Client{config: cfg, logger: cfg.Logger}
	c.clientWaitGroup.Add(1)
	c.pipesWaitGroup.Add(1)

	planJSON(L)
	panicked := true
	func() {
		defer func() { recover() }()
		c.logStderr("plugin", &vPipe{src})
		panicked = false
	}()
	if panicked {
		vCover("panic")
	}
	vAssert(!panicked, "C10: no stderr content makes the host panic")

	// (a) verbatim copy: the pieces written before the newline make up the line
	var pieces []string
	sawNL := false
	for _, ch := range w.chunks {
		if vIsConcrete(ch) && ch == "\n" { // the separator go-plugin writes, not a piece of the line
			sawNL = true
			break
		}
		pieces = append(pieces, ch)
	}
	vAssert(sawNL, "C10: the line is followed by a newline on the stderr writer")
	vAssert(vConcatIs(pieces, L), "C10: the line is copied unchanged to the stderr writer")
	if len(pieces) > 1 {
		vCover("chunked")
		vDone()
	}
	vCover("single")
	// (b) one-piece line: a record at the right level carrying the message
	vAssert(len(recs) >= 1, "C10: a log record is emitted for the line")
	r := recs[0]
	switch {
	case jsKind == 1 && !jsTrail && !tsBad && jsTS != 2 && jsMsg == 1 && jsLvl == 1 && vAnyOf(jsLevel == "trace", jsLevel == "debug", jsLevel == "info", jsLevel == "warn", jsLevel == "error"):
		vCover("hclog-json")
		vAssert(r.level == jsLevel, "C10: hclog JSON record is logged at its own level")
		vAssert(r.msg == jsMessage, "C10: hclog JSON record carries its message")
	case jsKind == 0 || jsTrail:
		vCover("text")
		vAssert(r.msg == L, "C10: a text line is logged verbatim")
	}
	vDone()
}

// Two lines: the first establishes logStderr's carried state (continuation flag, panic mode) in every way a complete
// line can - shorter than, exactly as long as, or longer than the buffer; plain, "panic:" or "[INFO]" text - and the
// second line is then checked over the full class space of the one-line run.
func harnessC10two() {
	L0 := vNondetStr("L0", "\n")
	L1 := vNondetStr("L1", "\n")
	B := vNondetInt("B")
	vAssume(B >= 16 && B <= 1<<20)
	vAssume(len(L0) <= 2*B)
	vAssume(len(L1)+2 <= B) // the second line arrives in one piece
	src := &lineSrc{lines: []string{L0, L1}, term: []int{0, vChoice(2)}}
	w := &vWriter{}
	var recs []logRec
	cfg := &ClientConfig{Stderr: w, Logger: vLogger{&recs}, PluginLogBufferSize: B}
	c := &Client{config: cfg, logger: cfg.Logger}
	c.clientWaitGroup.Add(1)
	c.pipesWaitGroup.Add(1)
	jsForce0 = true // the first line is text (not JSON)
	planJSON(L1)
	panicked := true
	func() {
		defer func() { recover() }()
		c.logStderr("plugin", &vPipe{src})
		panicked = false
	}()
	vAssert(!panicked, "C10: no stderr content makes the host panic")

	// split what reached the stderr writer at the separators go-plugin wrote
	var p0, p1 []string
	nl := 0
	for _, ch := range w.chunks {
		if vIsConcrete(ch) && ch == "\n" {
			nl++
			continue
		}
		if nl == 0 {
			p0 = append(p0, ch)
		} else {
			p1 = append(p1, ch)
		}
	}
	vAssert(nl == 2, "C10: each line is followed by a newline on the stderr writer")
	vAssert(vConcatIs(p0, L0), "C10: the first line is copied unchanged to the stderr writer")
	vAssert(vConcatIs(p1, L1), "C10: the second line is copied unchanged to the stderr writer")
	n0 := len(p0)
	if n0 == 0 {
		n0 = 1 // an empty first line is still one (empty) piece
	}
	if len(L0)+1 > B {
		vCover("first-line-chunked")
		if len(L0) == B {
			vCover("first-line-exact-fit")
		}
	} else {
		vCover("first-line-single")
	}
	// the record of the second line is the last one
	vAssert(len(recs) >= 2, "C10: a log record is emitted for every line")
	r := recs[len(recs)-1]
	first := recs[0]
	inPanic := len(L0)+1 <= B && first.level == "error" && vPrefix(L0, "panic:")
	switch {
	case jsKind == 1 && !jsTrail && !tsBad && jsTS != 2 && jsMsg == 1 && jsLvl == 1 && vAnyOf(jsLevel == "trace", jsLevel == "debug", jsLevel == "info", jsLevel == "warn", jsLevel == "error"):
		vCover("hclog-json")
		vAssert(r.level == jsLevel, "C10: hclog JSON record is logged at its own level (after any first line)")
		vAssert(r.msg == jsMessage, "C10: hclog JSON record carries its message (after any first line)")
	case jsKind == 0 || jsTrail:
		vCover("text")
		vAssert(r.msg == L1, "C10: a text line is logged verbatim (after any first line)")
		switch {
		case vPrefix(L1, "[TRACE]"):
			vAssert(r.level == "trace", "C10: [TRACE] text is logged at trace")
		case vPrefix(L1, "[DEBUG]"):
			vAssert(r.level == "debug", "C10: [DEBUG] text is logged at debug")
		case vPrefix(L1, "[INFO]"):
			vAssert(r.level == "info", "C10: [INFO] text is logged at info")
		case vPrefix(L1, "[WARN]"):
			vAssert(r.level == "warn", "C10: [WARN] text is logged at warn")
		case vPrefix(L1, "[ERROR]"):
			vAssert(r.level == "error", "C10: [ERROR] text is logged at error")
		case vPrefix(L1, "panic:"):
			vAssert(r.level == "error", "C10: a panic line is logged at error")
		default:
			if inPanic {
				vCover("inside-panic-trace")
				vAssert(r.level == "error", "C10: text inside a panic trace is logged at error")
			} else {
				vAssert(r.level == "debug", "C10: unrecognised text falls back to debug")
			}
		}
	}
	vDone()
}

var jsForce0 bool
var jsAllText bool
var lastLineIdx int

func plainText(tag string) string {
	s := vNondetStr(tag, "\n")
	vAssume(len(s) <= 100)
	vAssume(!vPrefix(s, "[TRACE]") && !vPrefix(s, "[DEBUG]") && !vPrefix(s, "[INFO]") && !vPrefix(s, "[WARN]") && !vPrefix(s, "[ERROR]") && !vPrefix(s, "panic:"))
	return s
}

// harnessC10trace: a panic trace of several lines. After a "panic:" line every following unprefixed text line is logged
// at error - the first, the second and the third alike - until a line with a level prefix (or JSON) ends the trace;
// the unprefixed line after that is back at debug.
func harnessC10trace() {
	t0, t1, t2, t3, t4 := vNondetStr("t0", "\n"), plainText("t1"), plainText("t2"), plainText("t3"), plainText("t4")
	vAssume(len(t0) <= 100)
	lines := []string{"panic: " + t0, t1, t2, t3, "[INFO] back to normal", t4}
	src := &lineSrc{lines: lines, term: []int{0, 0, vChoice(2), 0, 0, 0}}
	w := &vWriter{}
	var recs []logRec
	cfg := &ClientConfig{Stderr: w, Logger: vLogger{&recs}, PluginLogBufferSize: 4096}
	c := &Client{config: cfg, logger: cfg.Logger}
	c.clientWaitGroup.Add(1)
	c.pipesWaitGroup.Add(1)
	jsAllText = true
	panicked := true
	func() {
		defer func() { recover() }()
		c.logStderr("plugin", &vPipe{src})
		panicked = false
	}()
	vAssert(!panicked, "C10: no stderr content makes the host panic")
	vAssert(len(recs) == 6, "C10: a log record is emitted for every line")
	want := []string{"error", "error", "error", "error", "info", "debug"}
	for i, r := range recs {
		vAssert(r.msg == lines[i], "C10: every line of a panic trace is logged verbatim, in order")
		if i >= 1 && i <= 3 {
			vAssert(r.level == "error", "C10: text inside a panic trace is logged at error (every line of the trace, not only the first)")
		} else {
			vAssert(r.level == want[i], "C10: a panic line is logged at error, a prefixed line at its level, and text after the trace ended falls back to debug")
		}
	}
	vCover("trace-done")
	vDone()
}

func vPrefix(s, p string) bool { return len(s) >= len(p) && strings.HasPrefix(s, p) }
