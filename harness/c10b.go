package plugin

import (
	"bufio"
	"context"
	"crypto/tls"
	"crypto/x509"
	"encoding/base64"
	"errors"
	"io"
	"log"
	"net"
	"os/exec"
	"strconv"
	"time"

	hclog "github.com/hashicorp/go-hclog"
	"github.com/hashicorp/go-plugin/runner"
)


// ---------------- process / runner model ----------------
type vProc struct {
	mode    int // 0 line at tLine, 1 stdout EOF at tLine while alive, 2 silent, 3 dies at tLine before output
	line    string
	tLine   int64
	dead    chan struct{}
	isDead  bool
	started int
	killed  int
}

func (p *vProc) die() {
	if !p.isDead {
		p.isDead = true
		close(p.dead)
	}
}

type vPipe struct{ p *vProc }

func (*vPipe) Read(b []byte) (int, error) { return 0, io.EOF }
func (*vPipe) Close() error               { return nil }

type vRunner struct{ p *vProc }

func (r *vRunner) Start(ctx context.Context) error {
	r.p.started++
	if r.p.mode == 3 {
		go func() { vDaemon(); vSleepUntil(r.p.tLine); r.p.die() }()
	}
	return nil
}
func (r *vRunner) Diagnose(ctx context.Context) string { return "" }
func (r *vRunner) Stdout() io.ReadCloser               { return &vPipe{r.p} }
func (r *vRunner) Stderr() io.ReadCloser               { return &vPipe{r.p} }
func (r *vRunner) Name() string                        { return "vplugin" }
func (r *vRunner) Wait(ctx context.Context) error      { <-r.p.dead; return nil }
func (r *vRunner) Kill(ctx context.Context) error      { r.p.killed++; r.p.die(); return nil }
func (r *vRunner) ID() string                          { return "v1" }
func (r *vRunner) PluginToHost(n, a string) (string, string, error) { return n, a, nil }
func (r *vRunner) HostToPlugin(n, a string) (string, string, error) { return n, a, nil }

// ---------------- bufio models ----------------
type scanGhost struct {
	p         *vProc
	delivered bool
	text      string
	next      int
}

var moreLens []int // lengths of the lines the plugin writes to its real stdout after the handshake
var consumed int
var stdoutNext int
var scannerStopped bool

var scanG = map[*bufio.Scanner]*scanGhost{}
var readerG = map[*bufio.Reader]*vProc{}

//verif:model bufio.NewScanner
func mNewScanner(r io.Reader) *bufio.Scanner {
	s := new(bufio.Scanner)
	scanG[s] = &scanGhost{p: r.(*vPipe).p}
	return s
}

//verif:model (*bufio.Scanner).Scan
func mScan(s *bufio.Scanner) bool {
	g := scanG[s]
	if !g.delivered {
		g.delivered = true
		switch g.p.mode {
		case 0:
			vSleepUntil(g.p.tLine)
			g.text = g.p.line
			return true
		case 1:
			vSleepUntil(g.p.tLine)
			return false
		}
	}
	// after the handshake: bufio.Scanner with ScanLines; a token over 64 KiB ends scanning with ErrTooLong
	if scannerStopped {
		return false
	}
	if stdoutNext < len(moreLens) {
		n := moreLens[stdoutNext]
		if n > 64*1024 {
			scannerStopped = true // the over-long token is NOT consumed: it stays in the pipe
			return false
		}
		stdoutNext++
		consumed++
		if n == 0 {
			g.text = "" // an empty line
		} else {
			g.text = "later"
		}
		return true
	}
	<-g.p.dead
	return false
}

//verif:model (*bufio.Scanner).Text
func mText(s *bufio.Scanner) string { return scanG[s].text }

//verif:model (*bufio.Scanner).Err
func mErr(s *bufio.Scanner) error {
	if scannerStopped {
		return bufio.ErrTooLong
	}
	return nil
}

// io.Copy from the plugin's stdout pipe: reads until EOF, i.e. consumes whatever the plugin writes until it dies
//verif:model io.Copy
func mCopy(dst io.Writer, src io.Reader) (int64, error) {
	p := src.(*vPipe).p
	for stdoutNext < len(moreLens) {
		stdoutNext++
		consumed++
	}
	<-p.dead
	return 0, nil
}

//verif:model bufio.NewReaderSize
func mNewReaderSize(r io.Reader, n int) *bufio.Reader {
	b := new(bufio.Reader)
	readerG[b] = r.(*vPipe).p
	return b
}

//verif:model (*bufio.Reader).ReadLine
func mReadLine(b *bufio.Reader) ([]byte, bool, error) {
	<-readerG[b].dead
	return nil, false, io.EOF
}

// ---------------- context model ----------------
type vCtx struct {
	done   chan struct{}
	closed bool
}

func (c *vCtx) Deadline() (time.Time, bool) { return time.Time{}, false }
func (c *vCtx) Done() <-chan struct{}       { return c.done }
func (c *vCtx) Err() error {
	if c.closed {
		return context.Canceled
	}
	return nil
}
func (c *vCtx) Value(k any) any { return nil }

//verif:model context.Background
func mBackground() context.Context { return &vCtx{} }

//verif:model context.WithCancel
func mWithCancel(parent context.Context) (context.Context, context.CancelFunc) {
	c := &vCtx{done: make(chan struct{})}
	return c, func() {
		if !c.closed {
			c.closed = true
			close(c.done)
		}
	}
}

//verif:model context.WithTimeout
func mWithTimeout(parent context.Context, d time.Duration) (context.Context, context.CancelFunc) {
	return mWithCancel(parent)
}

// ---------------- os / net / crypto models ----------------
//verif:model os.Environ
func mEnviron() []string { return []string{"HOSTVAR=1"} }

//verif:model os.MkdirTemp
func mMkdirTemp(dir, pattern string) (string, error) { return "/tmp/plugin-dir-v", nil }

//verif:model os.RemoveAll
func mRemoveAll(path string) error { return nil }

//verif:model net.ResolveTCPAddr
func mResolveTCP(network, address string) (*net.TCPAddr, error) {
	if vNondetOK("resolve_tcp", address) {
		return &net.TCPAddr{Port: 1}, nil
	}
	return nil, errors.New("resolve tcp")
}

//verif:model net.ResolveUnixAddr
func mResolveUnix(network, address string) (*net.UnixAddr, error) {
	return &net.UnixAddr{Name: address, Net: "unix"}, nil // never fails for network "unix" (net/unixsock.go)
}

var lastB64 string

//verif:model crypto/x509.NewCertPool
func mNewCertPool() *x509.CertPool { return new(x509.CertPool) }

//verif:model (*encoding/base64.Encoding).DecodeString
func mDecodeString(e *base64.Encoding, s string) ([]byte, error) {
	if vNondetOK("b64", s) {
		lastB64 = s
		return []byte{1}, nil
	}
	return nil, errors.New("b64")
}

//verif:model crypto/x509.ParseCertificate
func mParseCertificate(der []byte) (*x509.Certificate, error) {
	if vNondetOK("x509", lastB64) {
		return new(x509.Certificate), nil
	}
	return nil, errors.New("x509")
}

//verif:model (*crypto/x509.CertPool).AddCert
func mAddCert(p *x509.CertPool, c *x509.Certificate) {}

// ---------------- logger ----------------
type vLogger struct{}

func (vLogger) Log(level hclog.Level, msg string, args ...interface{}) {}
func (vLogger) Trace(msg string, args ...interface{})                   {}
func (vLogger) Debug(msg string, args ...interface{})                   {}
func (vLogger) Info(msg string, args ...interface{})                    {}
func (vLogger) Warn(msg string, args ...interface{})                    {}
func (vLogger) Error(msg string, args ...interface{})                   {}
func (vLogger) IsTrace() bool                                           { return false }
func (vLogger) IsDebug() bool                                           { return false }
func (vLogger) IsInfo() bool                                            { return false }
func (vLogger) IsWarn() bool                                            { return false }
func (vLogger) IsError() bool                                           { return false }
func (vLogger) ImpliedArgs() []interface{}                              { return nil }
func (l vLogger) With(args ...interface{}) hclog.Logger                 { return l }
func (vLogger) Name() string                                            { return "v" }
func (l vLogger) Named(name string) hclog.Logger                        { return l }
func (l vLogger) ResetNamed(name string) hclog.Logger                   { return l }
func (vLogger) SetLevel(level hclog.Level)                              {}
func (vLogger) StandardLogger(o *hclog.StandardLoggerOptions) *log.Logger { return nil }
func (vLogger) StandardWriter(o *hclog.StandardLoggerOptions) io.Writer { return nil }


func harnessC10stdout() {
	p := &vProc{mode: 0, line: "1|1|tcp|127.0.0.1:1234", tLine: 0, dead: make(chan struct{})}
	n := vNondetInt("len2")
	vAssume(n >= 0 && n <= 1<<20)
	moreLens = []int{n, 5, 5}
	cfg := &ClientConfig{
		HandshakeConfig: HandshakeConfig{ProtocolVersion: 1, MagicCookieKey: "K", MagicCookieValue: "V"},
		Plugins:         PluginSet{},
		Logger:          vLogger{},
		StartTimeout:    time.Second,
		RunnerFunc: func(l hclog.Logger, cmd *exec.Cmd, tmp string) (runner.Runner, error) {
			return &vRunner{p}, nil
		},
	}
	c := NewClient(cfg)
	_, err := c.Start()
	vAssume(err == nil)
	vSleepUntil(5 * 1000000000)
	vCover("after-handshake")
	vAssert(consumed == len(moreLens), "C10: the host keeps consuming the plugin's stdout whatever the line length")
	vDone()
}

var _ = strconv.Itoa
var _ = x509.NewCertPool
var _ = base64.StdEncoding
var _ = errors.New
var _ = log.Printf
var _ = tls.VersionTLS12
