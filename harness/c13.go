package plugin

import (
	"errors"
	"io"
	"os"
)


// hash.Hash whose digest is an arbitrary byte string (an uninterpreted function of the content)
type vHash struct{ sum []byte }

func (h *vHash) Write(p []byte) (int, error) { return len(p), nil }
func (h *vHash) Sum(b []byte) []byte          { return h.sum }
func (h *vHash) Reset()                       {}
func (h *vHash) Size() int                    { return len(h.sum) }
func (h *vHash) BlockSize() int               { return 1 }

var openFails bool

//verif:model os.Open
func mOpen(name string) (*os.File, error) {
	if openFails {
		return nil, errors.New("open")
	}
	return new(os.File), nil
}

//verif:model (*os.File).Close
func mFileClose(f *os.File) error { return nil }

//verif:model io.Copy
func mCopy(dst io.Writer, src io.Reader) (int64, error) { return 0, nil }


func harnessC13() {
	maxLen := vParam("bytes")
	d := vNondetBytes("d", maxLen)   // the digest of the file
	c := vNondetBytes("c", maxLen+1) // the configured checksum: any length, any bytes
	openFails = vNondetBool("openFails")
	sc := &SecureConfig{Checksum: c, Hash: &vHash{sum: d}}
	if vChoice(2) == 1 {
		sc.Hash = nil
	}
	ok, err := sc.Check("/bin/plugin")
	vRecord("hashNil", sc.Hash == nil)
	vRecord("openFails", openFails)
	vRecord("out.ok", ok)
	vRecord("out.err", err != nil)

	// reference: byte-for-byte, length-sensitive equality
	equal := len(c) == len(d)
	if equal {
		for i := 0; i < len(c); i++ {
			if c[i] != d[i] {
				equal = false
			}
		}
	}
	switch {
	case len(c) == 0:
		vCover("empty-checksum")
		vAssert(!ok && errors.Is(err, ErrSecureConfigNoChecksum), "C13: empty checksum is refused with its error")
	case sc.Hash == nil:
		vCover("nil-hash")
		vAssert(!ok && errors.Is(err, ErrSecureConfigNoHash), "C13: missing hash is refused with its error")
	case openFails:
		vCover("open-fails")
		vAssert(!ok && err != nil, "C13: unreadable file is refused")
	default:
		vAssert(err == nil, "C13: readable file, hash and checksum present: no error")
		if equal {
			vCover("match")
		} else {
			vCover("mismatch")
		}
		vAssert(ok == equal, "C13: Check is true iff checksum equals digest byte for byte")
	}
	vDone()
}
