package plugin

import (
	"errors"
	"io"
	"os"
)


// hash.Hash whose digest is an arbitrary byte string (an uninterpreted function of the content): after exactly one file
// has been fed since the last Reset the digest is that file's (sum); in any other state - nothing fed, or a second file
// fed on top of the first - it is some other arbitrary byte string (other).
type vHash struct {
	sum, other []byte
	fed        int
}

func (h *vHash) Write(p []byte) (int, error) { return len(p), nil }
func (h *vHash) Sum(b []byte) []byte {
	src := h.other
	if h.fed == 1 {
		src = h.sum
	}
	// hash.Hash.Sum APPENDS the digest to b: when b has room, the digest lands in b's backing array (Sum(x[:0]) overwrites
	// x), otherwise in a fresh one
	if b != nil && cap(b)-len(b) >= len(src) && len(src) > 0 {
		out := b[:len(b)+len(src)]
		for i := 0; i < len(src); i++ {
			out[len(b)+i] = src[i]
		}
		return out
	}
	return src
}
func (h *vHash) Reset()         { h.fed = 0 }
func (h *vHash) Size() int      { return len(h.sum) }
func (h *vHash) BlockSize() int { return 1 }

var openFails bool

//verif:model os.Open
func mOpen(name string) (*os.File, error) {
	if openFails {
		return nil, errors.New("open")
	}
	return new(os.File), nil
}

//verif:model (*os.File).Close
func mFileClose(f *os.File) error { return nil }

//verif:model io.Copy
func mCopy(dst io.Writer, src io.Reader) (int64, error) {
	if h, ok := dst.(*vHash); ok {
		h.fed++
	}
	return 0, nil
}


func harnessC13() {
	maxLen := vParam("bytes")
	d := vNondetBytes("d", maxLen)   // the digest of the file
	c := vNondetBytes("c", maxLen+1) // the configured checksum: any length, any bytes
	openFails = vNondetBool("openFails")
	h := &vHash{sum: d, other: vNondetBytes("other", maxLen)}
	sc := &SecureConfig{Checksum: c, Hash: h}
	if vChoice(2) == 1 {
		sc.Hash = nil
	}
	// the configured checksum as the caller gave it (Check has no business changing it)
	var c0 [16]byte
	n0 := len(c)
	for i := 0; i < n0; i++ {
		c0[i] = c[i]
	}
	ok, err := sc.Check("/bin/plugin")
	vRecord("hashNil", sc.Hash == nil)
	vRecord("openFails", openFails)
	vRecord("out.ok", ok)
	vRecord("out.err", err != nil)

	// reference: byte-for-byte, length-sensitive equality with the checksum as configured
	equal := n0 == len(d)
	if equal {
		for i := 0; i < n0; i++ {
			if c0[i] != d[i] {
				equal = false
			}
		}
	}
	switch {
	case len(c) == 0:
		vCover("empty-checksum")
		vAssert(!ok && errors.Is(err, ErrSecureConfigNoChecksum), "C13: empty checksum is refused with its error")
	case sc.Hash == nil:
		vCover("nil-hash")
		vAssert(!ok && errors.Is(err, ErrSecureConfigNoHash), "C13: missing hash is refused with its error")
	case openFails:
		vCover("open-fails")
		vAssert(!ok && err != nil, "C13: unreadable file is refused")
	default:
		vAssert(err == nil, "C13: readable file, hash and checksum present: no error")
		if equal {
			vCover("match")
		} else {
			vCover("mismatch")
		}
		vAssert(ok == equal, "C13: Check is true iff checksum equals digest byte for byte")
		// the same SecureConfig checked again (a host that restarts its plugin from the same configuration): the file may
		// have been replaced meanwhile (digest d2, possibly equal to d); the answer is about the file as it is now
		d2 := vNondetBytes("d2", maxLen)
		h.sum = d2
		ok2, err2 := sc.Check("/bin/plugin")
		equal2 := n0 == len(d2)
		if equal2 {
			for i := 0; i < n0; i++ {
				if c0[i] != d2[i] {
					equal2 = false
				}
			}
		}
		vAssert(err2 == nil, "C13: a second check of a readable file is no error")
		vAssert(ok2 == equal2, "C13: a second check on the same SecureConfig is true iff the checksum equals the digest of the file as it is now")
		vCover("checked-twice")
	}
	vDone()
}
