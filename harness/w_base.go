package plugin

// World model, part 1: logger, contexts, processes, pipes, scanner/reader models, files, listeners, connections.
//
// Everything go-plugin calls into and that cannot be executed symbolically is replaced here by a model that is
// constrained only by the documented contract of what it replaces (DESIGN.md section 4). Models are ordinary Go,
// executed by the same symbolic interpreter; nondeterminism is vNondet*/vChoice. Four rules: a model carries the
// synchronisation of what it replaces; whatever crosses a process boundary is copied; an access made on behalf of a
// go-plugin call site is attributed to it; a harness model takes precedence over an engine built-in.

import (
	"sync"
	"bufio"
	"bytes"
	"context"
	"errors"
	"fmt"
	"io"
	"log"
	"os"
	"os/exec"
	"strings"
	"time"

	hclog "github.com/hashicorp/go-hclog"
	"github.com/hashicorp/go-plugin/runner"
)

const sec = int64(1000000000)

var wNever = make(chan struct{})

// ---------------------------------------------------------------------------------------------- logger
type wLogRec struct {
	level, msg string
	args       []interface{}
}
type wLogger struct{ recs *[]wLogRec }

func newWLogger() wLogger { return wLogger{recs: new([]wLogRec)} }

func (l wLogger) add(level, msg string, args []interface{}) {
	*l.recs = append(*l.recs, wLogRec{level, msg, args})
}
func (l wLogger) Log(level hclog.Level, msg string, args ...interface{}) {}
func (l wLogger) Trace(msg string, args ...interface{})                   { l.add("trace", msg, args) }
func (l wLogger) Debug(msg string, args ...interface{})                   { l.add("debug", msg, args) }
func (l wLogger) Info(msg string, args ...interface{})                    { l.add("info", msg, args) }
func (l wLogger) Warn(msg string, args ...interface{})                    { l.add("warn", msg, args) }
func (l wLogger) Error(msg string, args ...interface{})                   { l.add("error", msg, args) }
func (wLogger) IsTrace() bool                                             { return false }
func (wLogger) IsDebug() bool                                             { return false }
func (wLogger) IsInfo() bool                                              { return false }
func (wLogger) IsWarn() bool                                              { return false }
func (wLogger) IsError() bool                                             { return false }
func (wLogger) ImpliedArgs() []interface{}                                { return nil }
func (l wLogger) With(args ...interface{}) hclog.Logger                   { return l }
func (wLogger) Name() string                                              { return "w" }
func (l wLogger) Named(name string) hclog.Logger                          { return l }
func (l wLogger) ResetNamed(name string) hclog.Logger                     { return l }
func (wLogger) SetLevel(level hclog.Level)                                {}
func (wLogger) StandardLogger(o *hclog.StandardLoggerOptions) *log.Logger { return nil }
func (wLogger) StandardWriter(o *hclog.StandardLoggerOptions) io.Writer   { return nil }

// ---------------------------------------------------------------------------------------------- context
// Same contract as package context: Done is closed on cancel, on the parent's cancellation, or at the deadline.
type wCtx struct {
	done     chan struct{}
	closed   bool
	err      error
	timed    bool
	deadline time.Time
}

func (c *wCtx) Deadline() (time.Time, bool) { return time.Time{}, false }
func (c *wCtx) Done() <-chan struct{}       { return c.done }
func (c *wCtx) Err() error {
	if c.err == nil && c.timed && !time.Now().Before(c.deadline) { // at the deadline whether or not the timer goroutine has run yet
		c.cancel(context.DeadlineExceeded)
	}
	return c.err
}
func (c *wCtx) Value(k any) any             { return nil }
func (c *wCtx) cancel(err error) {
	if !c.closed {
		c.closed = true
		c.err = err
		close(c.done)
	}
}

//verif:model context.Background
func mBackground() context.Context { return &wCtx{} }

//verif:model context.TODO
func mTODO() context.Context { return &wCtx{} }

func wChildCtx(parent context.Context, d time.Duration, timed bool) (*wCtx, context.CancelFunc) {
	c := &wCtx{done: make(chan struct{}), timed: timed}
	if timed {
		c.deadline = time.Now().Add(d)
	}
	pd := parent.Done()
	if pd != nil || timed {
		var expire <-chan time.Time
		if timed {
			expire = time.After(d)
		}
		go func() {
			vDaemon()
			select {
			case <-pd:
				c.cancel(parent.Err())
			case <-expire:
				c.cancel(context.DeadlineExceeded)
			case <-c.done:
			}
		}()
	}
	return c, func() { c.cancel(context.Canceled) }
}

//verif:model context.WithCancel
func mWithCancel(parent context.Context) (context.Context, context.CancelFunc) {
	return wChildCtx(parent, 0, false)
}

//verif:model context.WithTimeout
func mWithTimeout(parent context.Context, d time.Duration) (context.Context, context.CancelFunc) {
	return wChildCtx(parent, d, true)
}

// ---------------------------------------------------------------------------------------------- processes
// A modelled OS process: alive or dead; its goroutines carry its id (vSetProc, inherited at `go`); when it dies every
// goroutine of it stops at once (no deferred call runs), its pipes reach EOF, its listeners and connections close.
type wProc struct {
	id       int
	pid      int
	dead     chan struct{}
	isDead   bool
	exitCode int
	frozen   bool // SIGSTOPped: answers nothing, never exits by itself; Kill still kills it
	started  int
	killed   int
	stdout   *wPipe
	stderr   *wPipe
	main     func() // what the plugin binary's main() does
}

var wProcs = map[int]*wProc{}
var wNextProc = 1

func newWProc(main func()) *wProc {
	p := &wProc{id: wNextProc, pid: 4000 + wNextProc, dead: make(chan struct{}), exitCode: -1, main: main}
	wNextProc++
	p.stdout, p.stderr = newWPipe(), newWPipe()
	wProcs[p.id] = p
	return p
}

func wCurProc() *wProc { return wProcs[vCurProc()] }

// launch starts the process: its main runs as a goroutine of the new process; returning from main is exit(0).
func (p *wProc) launch() {
	p.started++
	go func() {
		vDaemon()
		vSetProc(p.id)
		mOrigStdoutOf[os.Stdout] = true // this process's real stdout, before anybody redirects os.Stdout
		mRealStdoutHook = wWriteRealStdout
		p.main()
		p.exit(0)
	}()
}

func (p *wProc) exit(code int) {
	if p.isDead {
		vExitThread()
	}
	p.exitCode = code
	p.die()
}

// A process's death takes all its goroutines with it, so it does not commute with anything they still had to do to the
// world outside the process. For the schedule exploration that is expressed through a per-process mutex touched by the
// death and by the operations of that process that change the file system (closing a listener unlinks its socket).
var wProcMu = map[int]*sync.Mutex{}

func wProcTouch(id int) {
	m := wProcMu[id]
	if m == nil {
		m = new(sync.Mutex)
		wProcMu[id] = m
	}
	m.Lock()
	m.Unlock()
}

// die: SIGKILL or exit. May be called from any process.
func (p *wProc) die() {
	if p.isDead {
		return
	}
	wProcTouch(p.id)
	p.isDead = true
	wTrace(fmt.Sprintf("process %d dies", p.id))
	close(p.dead)
	p.stdout.closeWrite()
	p.stderr.closeWrite()
	for _, l := range wListeners {
		if l.owner == p.id && !l.closed {
			l.closed = true // the kernel closes the descriptor; the socket FILE stays (nobody unlinks it)
			close(l.closeCh)
		}
	}
	for _, c := range wConns {
		if c.owner == p.id {
			c.shut()
		}
	}
	vKillProc(p.id) // does not return when the caller belongs to p
}

// ---------------------------------------------------------------------------------------------- pipes
// A pipe carries items (lines or chunks, as abstract strings) from a writer to a reader; EOF after the write end closes.
type wPipe struct {
	ch     chan string
	wclose bool
	rclose bool // the read end was closed: what was still unread is lost
	taken  int
}

func (p *wPipe) closeRead() { p.rclose = true }

func newWPipe() *wPipe { return &wPipe{ch: make(chan string, 16)} }

func (p *wPipe) write(s string) {
	if !p.wclose {
		p.ch <- s
	}
}
func (p *wPipe) closeWrite() {
	if !p.wclose {
		p.wclose = true
		close(p.ch)
	}
}
func (p *wPipe) Read(b []byte) (int, error) { return 0, errors.New("raw Read of a modelled pipe") }
func (p *wPipe) Close() error               { return nil }

// read blocks like a pipe read: the next item, or ok=false at EOF
func (p *wPipe) read() (string, bool) {
	if p.rclose {
		return "", false
	}
	s, ok := <-p.ch
	if p.rclose {
		return "", false
	}
	if ok {
		p.taken++
	}
	return s, ok
}

// ---------------------------------------------------------------------------------------------- bufio over pipes
type wScanGhost struct {
	pipe    *wPipe
	text    string
	err     error
	stopped bool
}

var wScanG = map[*bufio.Scanner]*wScanGhost{}

//verif:model bufio.NewScanner
func mNewScanner(r io.Reader) *bufio.Scanner {
	s := new(bufio.Scanner)
	wScanG[s] = &wScanGhost{pipe: r.(*wPipe)}
	return s
}

// bufio.Scanner (ScanLines): yields each line; a line over 64 KiB makes Scan return false with ErrTooLong and nothing
// further is read by the scanner.
//
//verif:model (*bufio.Scanner).Scan
func mScan(s *bufio.Scanner) bool {
	g := wScanG[s]
	if g.stopped {
		return false
	}
	line, ok := g.pipe.read()
	if !ok {
		g.stopped = true
		return false
	}
	if len(line) > 64*1024 {
		g.stopped = true
		g.err = bufio.ErrTooLong
		return false
	}
	g.text = line
	return true
}

//verif:model (*bufio.Scanner).Text
func mText(s *bufio.Scanner) string { return wScanG[s].text }

//verif:model (*bufio.Scanner).Err
func mErr(s *bufio.Scanner) error { return wScanG[s].err }

var wReaderG = map[*bufio.Reader]*wPipe{}

// io.TeeReader: what is read from r is also written to w
type wTee struct {
	r io.Reader
	w io.Writer
}

func (t *wTee) Read(p []byte) (int, error) { return 0, errors.New("raw Read of a modelled tee reader") }

//verif:model io.TeeReader
func mTeeReader(r io.Reader, w io.Writer) io.Reader { return &wTee{r, w} }

var wTeeOf = map[*bufio.Reader]io.Writer{}

//verif:model bufio.NewReaderSize
func mNewReaderSize(r io.Reader, n int) *bufio.Reader {
	b := new(bufio.Reader)
	wReaderG[b] = r.(*wPipe)
	return b
}

//verif:model bufio.NewReader
func mNewReader(r io.Reader) *bufio.Reader {
	b := new(bufio.Reader)
	if t, ok := r.(*wTee); ok {
		wTeeOf[b] = t.w
		r = t.r
	}
	if p, ok := r.(*wPipe); ok {
		wReaderG[b] = p
	} else if f, ok := r.(*os.File); ok {
		wReaderG[b] = wFilePipe[f]
	}
	return b
}

// ReadLine in the composed runs: stderr lines are short (one piece); the chunking of long lines is C10's own model.
//
//verif:model (*bufio.Reader).ReadLine
func mReadLine(b *bufio.Reader) ([]byte, bool, error) {
	line, ok := wReaderG[b].read()
	if !ok {
		return nil, false, io.EOF
	}
	return []byte(line), false, nil
}

// Read returns what is available, at most len(p) bytes (here: the next written chunk, which the writers keep <= 1 KiB)
//
//verif:model (*bufio.Reader).Read
func mBufRead(b *bufio.Reader, p []byte) (int, error) {
	pipe := wReaderG[b]
	if pipe == nil {
		vDaemon()
		<-wNever
	}
	chunk, ok := pipe.read()
	if !ok {
		return 0, io.EOF
	}
	if w := wTeeOf[b]; w != nil {
		w.Write([]byte(chunk))
	}
	return vFillBytes(p, chunk), nil
}

// io.Copy between the endpoints go-plugin copies between: pipes, yamux streams, writers.
//
//verif:model io.Copy
func mCopy(dst io.Writer, src io.Reader) (int64, error) {
	if h, isHash := dst.(*wHash); isHash { // hashing a file: the digest is that of the file that was opened
		if f, isFile := src.(*os.File); isFile {
			if d := wOpenedDigest[f]; d != nil {
				h.sum = d
			}
		}
		return 0, nil
	}
	for {
		chunk, ok := wReadChunk(src)
		if !ok {
			return 0, nil
		}
		if err := wWriteChunk(dst, chunk); err != nil {
			return 0, err
		}
	}
}

var wBytesReaderG = map[*bytes.Reader]*wBytesReader{}

type wBytesReader struct {
	s    string
	done bool
}

//verif:model bytes.NewReader
func mBytesNewReader(b []byte) *bytes.Reader {
	r := new(bytes.Reader)
	wBytesReaderG[r] = &wBytesReader{s: string(b)}
	return r
}

func wReadChunk(src io.Reader) (string, bool) {
	switch r := src.(type) {
	case *wTee:
		chunk, ok := wReadChunk(r.r)
		if ok {
			r.w.Write([]byte(chunk))
		}
		return chunk, ok
	case *bytes.Reader:
		g := wBytesReaderG[r]
		if g == nil || g.done {
			return "", false
		}
		g.done = true
		return g.s, true
	case *wPipe:
		return r.read()
	case *os.File:
		if p := wFilePipe[r]; p != nil {
			return p.read()
		}
		return "", false // an ordinary file (the plugin binary being hashed): its content is not modelled, EOF at once
	}
	if st, ok := wAsStream(src); ok {
		return wStreamReadData(st)
	}
	<-wNever
	return "", false
}

func wWriteChunk(dst io.Writer, chunk string) error {
	if st, ok := wAsStream(dst); ok {
		return wStreamWriteData(st, chunk)
	}
	if dst == io.Discard {
		return nil
	}
	_, err := dst.Write([]byte(chunk))
	return err
}

// ---------------------------------------------------------------------------------------------- runner for RunnerFunc
type wRunner struct {
	p     *wProc
	xlate bool // host and plugin in different file-system namespaces (see wVisible)

	startFails bool
}

func (r *wRunner) Start(ctx context.Context) error {
	if r.startFails {
		return errors.New("runner: cannot start the plugin")
	}
	r.p.launch()
	return nil
}
func (r *wRunner) Diagnose(ctx context.Context) string { return "" }
func (r *wRunner) Stdout() io.ReadCloser               { return r.p.stdout }
func (r *wRunner) Stderr() io.ReadCloser               { return r.p.stderr }
func (r *wRunner) Name() string                        { return "wplugin" }
func (r *wRunner) Wait(ctx context.Context) error      { <-r.p.dead; return nil }
func (r *wRunner) Kill(ctx context.Context) error {
	if err := ctx.Err(); err != nil { // a runner that honours its context, as the interface invites: nothing is signalled once it is done
		return err
	}
	if !r.p.isDead { // signalling a process that has already exited kills nothing
		r.p.killed++
		r.p.die()
	}
	return nil
}
func (r *wRunner) ID() string                          { return fmt.Sprintf("%d", r.p.pid) }
func (r *wRunner) PluginToHost(n, a string) (string, string, error) {
	if r.xlate {
		return n, "/host" + a, nil
	}
	return n, a, nil
}
func (r *wRunner) HostToPlugin(n, a string) (string, string, error) {
	if r.xlate {
		return n, "/plug" + a, nil
	}
	return n, a, nil
}

var _ runner.Runner = (*wRunner)(nil)

// ---------------------------------------------------------------------------------------------- os/exec (real CmdRunner)
type wCmdGhost struct {
	p                  *wProc
	outPiped, errPiped bool
	started            bool
	execFails          bool // fork/exec fails (binary missing or not executable): Start returns an error, Process stays nil
}

var wCmdG = map[*exec.Cmd]*wCmdGhost{}
var wLastCmdEnv []string // what the last started command was given
var wLastCmdStdin io.Reader
var wProcOfOS = map[*os.Process]*wProc{}

// what the launcher does to the client-certificate variable on its way to the child: 0 delivered as built,
// 1 damaged (set, but no longer a parsable certificate: e.g. a line-oriented launcher cut the PEM at its first
// newline), 2 dropped (a plugin that does not take part in AutoMTLS)
var wCertMangle int

func wChildEnv(k, v string) (string, bool) {
	if k == "PLUGIN_CLIENT_CERT" {
		switch wCertMangle {
		case 1:
			return "-----BEGIN CERTIFICATE-----", true
		case 2:
			return "", false
		}
	}
	return v, true
}

// wCommand makes an *exec.Cmd whose start launches p
var wCmdPath = "/bin/wplugin"
var wCmdDir string

func wCommand(p *wProc) *exec.Cmd {
	c := &exec.Cmd{Path: wCmdPath, Args: []string{wCmdPath}, Dir: wCmdDir}
	wCmdG[c] = &wCmdGhost{p: p}
	return c
}

//verif:model os/exec.Command
func mExecCommand(name string, arg ...string) *exec.Cmd {
	c := &exec.Cmd{Path: name, Args: []string{name}}
	return c
}

//verif:model (*os/exec.Cmd).StdoutPipe
func mStdoutPipe(c *exec.Cmd) (io.ReadCloser, error) {
	g := wCmdG[c]
	if g.outPiped || g.started {
		return nil, errors.New("exec: Stdout already set")
	}
	g.outPiped = true
	return g.p.stdout, nil
}

//verif:model (*os/exec.Cmd).StderrPipe
func mStderrPipe(c *exec.Cmd) (io.ReadCloser, error) {
	g := wCmdG[c]
	if g.errPiped || g.started {
		return nil, errors.New("exec: Stderr already set")
	}
	g.errPiped = true
	return g.p.stderr, nil
}

//verif:model (*os/exec.Cmd).Start
func mCmdStart(c *exec.Cmd) error {
	g := wCmdG[c]
	if g.started {
		return errors.New("exec: already started")
	}
	g.started = true
	if g.execFails {
		g.p.stdout.closeWrite() // exec.Cmd closes the descriptors it created for the child
		g.p.stderr.closeWrite()
		return errors.New("fork/exec " + c.Path + ": no such file or directory")
	}
	wLastCmdEnv, wLastCmdStdin = c.Env, c.Stdin
	for _, kv := range c.Env { // the child's environment is what the host built (last duplicate wins)
		k, v, _ := strings.Cut(kv, "=")
		if vIsConcrete(k) {
			if v, keep := wChildEnv(k, v); keep {
				vSetenvProc(g.p.id, k, v)
			}
		}
	}
	c.Process = new(os.Process)
	c.Process.Pid = g.p.pid
	wProcOfOS[c.Process] = g.p
	g.p.launch()
	return nil
}

//verif:model (*os/exec.Cmd).Wait
func mCmdWait(c *exec.Cmd) error {
	g := wCmdG[c]
	if c.Process == nil {
		return errors.New("exec: not started")
	}
	<-g.p.dead
	// exec.Cmd.Wait closes the parent's ends of StdoutPipe/StderrPipe once the command has exited ("it is thus incorrect
	// to call Wait before all reads from the pipe have completed"): what is still unread is lost
	g.p.stdout.closeRead()
	g.p.stderr.closeRead()
	if g.p.exitCode != 0 {
		return errors.New("exit status / signal: killed")
	}
	return nil
}

//verif:model (*os.Process).Kill
func mProcessKill(p *os.Process) error {
	_ = p.Pid // the real method reads the process handle: a nil *os.Process is a nil-pointer dereference
	wp := wProcOfOS[p]
	if wp == nil || wp.isDead {
		return os.ErrProcessDone
	}
	wp.killed++
	wp.die()
	return nil
}

//verif:model os.FindProcess
func mFindProcess(pid int) (*os.Process, error) {
	p := new(os.Process)
	p.Pid = pid
	for _, wp := range wProcs {
		if wp.pid == pid {
			wProcOfOS[p] = wp
		}
	}
	return p, nil
}

//verif:model (*os.Process).Signal
func mProcessSignal(p *os.Process, sig os.Signal) error {
	_ = p.Pid
	wp := wProcOfOS[p]
	if wp == nil || wp.isDead {
		return os.ErrProcessDone
	}
	return nil
}

//verif:model github.com/hashicorp/go-plugin/internal/cmdrunner.additionalNotesAboutCommand
func mAdditionalNotes(path string) string { return "" }

//verif:model os.Getpid
func mGetpid() int {
	if p := wCurProc(); p != nil {
		return p.pid
	}
	return 1
}
