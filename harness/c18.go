package plugin

import (
	"bufio"
	"google.golang.org/grpc"
	"google.golang.org/grpc/health"
	"google.golang.org/grpc/health/grpc_health_v1"
	"github.com/hashicorp/go-plugin/internal/plugin"
	"github.com/hashicorp/yamux"
	"context"
	"crypto/tls"
	"crypto/x509"
	"encoding/base64"
	"fmt"
	"io"
	"log"
	"net"
	"os"
	"os/signal"
	"time"

	hclog "github.com/hashicorp/go-hclog"
)


type vPlugNet struct{ NetRPCUnsupportedPlugin }

type vPlugGRPC struct{ NetRPCUnsupportedPlugin }

func (vPlugGRPC) GRPCServer(b *GRPCBroker, s *grpc.Server) error { return nil }
func (vPlugGRPC) GRPCClient(ctx context.Context, b *GRPCBroker, c *grpc.ClientConn) (interface{}, error) {
	return nil, nil
}

// ---------- process ghost ----------
var (
	exited   bool
	exitCode int
	stdout   []string
	events   []string
	files    = map[string]bool{} // ghost file system
	nTemp    int
)

//verif:model os.Exit
func mExit(code int) { exited = true; exitCode = code; vExitThread() }

//verif:model fmt.Printf
func mPrintf(format string, a ...any) (int, error) {
	stdout = append(stdout, fmt.Sprintf(format, a...))
	events = append(events, "print")
	return 0, nil
}

var tempName = map[*os.File]string{}

//verif:model os.CreateTemp
func mCreateTemp(dir, pattern string) (*os.File, error) {
	f := new(os.File)
	nTemp++
	name := fmt.Sprintf("%s/%s%d", dir, pattern, nTemp)
	tempName[f] = name
	files[name] = true
	return f, nil
}

//verif:model (*os.File).Name
func mFileName(f *os.File) string { return tempName[f] }

//verif:model (*os.File).Close
func mFileClose(f *os.File) error { return nil }

//verif:model os.Remove
func mRemove(name string) error { delete(files, name); return nil }

//verif:model os.Pipe
func mPipe() (*os.File, *os.File, error) { return new(os.File), new(os.File), nil }

//verif:model os/signal.Notify
func mNotify(c chan<- os.Signal, sig ...os.Signal) {}

var _ = signal.Notify

type vAddr struct{ path string }

func (a vAddr) Network() string { return "unix" }
func (a vAddr) String() string  { return a.path }

type vListener struct {
	path   string
	q      chan net.Conn
	closed bool
}

func (l *vListener) Accept() (net.Conn, error) { c := <-l.q; return c, nil }
func (l *vListener) Close() error              { l.closed = true; return nil }
func (l *vListener) Addr() net.Addr            { return vAddr{l.path} }

var listeners []*vListener

//verif:model net.Listen
func mListen(network, address string) (net.Listener, error) {
	l := &vListener{path: address, q: make(chan net.Conn, 1)}
	listeners = append(listeners, l)
	files[address] = true
	events = append(events, "listen")
	return l, nil
}

// ---------- context ----------
type vCtx struct{}

func (vCtx) Deadline() (time.Time, bool) { return time.Time{}, false }
func (vCtx) Done() <-chan struct{}       { return nil }
func (vCtx) Err() error                  { return nil }
func (vCtx) Value(k any) any             { return nil }

//verif:model context.Background
func mBackground() context.Context { return vCtx{} }

// ---------- crypto (opaque) ----------
//verif:model github.com/hashicorp/go-plugin.generateCert
func mGenerateCert() ([]byte, []byte, error) { return []byte("CERTPEM"), []byte("KEYPEM"), nil }

//verif:model crypto/tls.X509KeyPair
func mX509KeyPair(c, k []byte) (tls.Certificate, error) {
	return tls.Certificate{Certificate: [][]byte{[]byte("DER")}}, nil
}

//verif:model crypto/x509.NewCertPool
func mNewCertPool() *x509.CertPool { return new(x509.CertPool) }

//verif:model (*crypto/x509.CertPool).AppendCertsFromPEM
func mAppendCerts(p *x509.CertPool, pem []byte) bool { return true }

//verif:model (*encoding/base64.Encoding).EncodeToString
func mEncodeToString(e *base64.Encoding, b []byte) string { return "B64(" + string(b) + ")" }

// ---------- logger ----------
type vLogger struct{}

func (vLogger) Log(level hclog.Level, msg string, args ...interface{}) {}
func (vLogger) Trace(msg string, args ...interface{})                   {}
func (vLogger) Debug(msg string, args ...interface{})                   {}
func (vLogger) Info(msg string, args ...interface{})                    {}
func (vLogger) Warn(msg string, args ...interface{})                    {}
func (vLogger) Error(msg string, args ...interface{})                   {}
func (vLogger) IsTrace() bool                                           { return false }
func (vLogger) IsDebug() bool                                           { return false }
func (vLogger) IsInfo() bool                                            { return false }
func (vLogger) IsWarn() bool                                            { return false }
func (vLogger) IsError() bool                                           { return false }
func (vLogger) ImpliedArgs() []interface{}                              { return nil }
func (l vLogger) With(args ...interface{}) hclog.Logger                 { return l }
func (vLogger) Name() string                                            { return "v" }
func (l vLogger) Named(name string) hclog.Logger                        { return l }
func (l vLogger) ResetNamed(name string) hclog.Logger                   { return l }
func (vLogger) SetLevel(level hclog.Level)                              {}
func (vLogger) StandardLogger(o *hclog.StandardLoggerOptions) *log.Logger { return nil }
func (vLogger) StandardWriter(o *hclog.StandardLoggerOptions) io.Writer { return nil }


// ---------- gRPC server seam ----------
type srvGhost struct {
	lis     []net.Listener
	stop    chan struct{}
	stopped bool
}

var srvG = map[*grpc.Server]*srvGhost{}
var controller plugin.GRPCControllerServer

func newServer(opts []grpc.ServerOption) *grpc.Server {
	s := new(grpc.Server)
	srvG[s] = &srvGhost{stop: make(chan struct{})}
	return s
}

//verif:model (*google.golang.org/grpc.Server).Serve
func mServe(s *grpc.Server, l net.Listener) error {
	g := srvG[s]
	g.lis = append(g.lis, l)
	<-g.stop
	return nil
}

// Stop closes all listeners the server is serving on and all connections (grpc documentation).
//verif:model (*google.golang.org/grpc.Server).Stop
func mStop(s *grpc.Server) {
	g := srvG[s]
	if g.stopped {
		return
	}
	g.stopped = true
	for _, l := range g.lis {
		l.Close()
	}
	close(g.stop)
}

//verif:model google.golang.org/grpc/health.NewServer
func mHealthNew() *health.Server { return new(health.Server) }

//verif:model (*google.golang.org/grpc/health.Server).SetServingStatus
func mSetServing(h *health.Server, svc string, st grpc_health_v1.HealthCheckResponse_ServingStatus) {}

//verif:model google.golang.org/grpc/health/grpc_health_v1.RegisterHealthServer
func mRegHealth(s grpc.ServiceRegistrar, srv grpc_health_v1.HealthServer) {}

//verif:model google.golang.org/grpc/reflection.Register
func mReflection(s interface{}) {}

//verif:model github.com/hashicorp/go-plugin/internal/plugin.RegisterGRPCBrokerServer
func mRegBroker(s grpc.ServiceRegistrar, srv plugin.GRPCBrokerServer) {}

//verif:model github.com/hashicorp/go-plugin/internal/plugin.RegisterGRPCControllerServer
func mRegController(s grpc.ServiceRegistrar, srv plugin.GRPCControllerServer) { controller = srv }

//verif:model github.com/hashicorp/go-plugin/internal/plugin.RegisterGRPCStdioServer
func mRegStdio(s grpc.ServiceRegistrar, srv plugin.GRPCStdioServer) {}

// stdio pipe readers never deliver in this harness
//verif:model bufio.NewReader
func mNewReader(r io.Reader) *bufio.Reader { return new(bufio.Reader) }

var never = make(chan struct{})

//verif:model (*bufio.Reader).Read
func mBufRead(b *bufio.Reader, p []byte) (int, error) { vDaemon(); <-never; return 0, io.EOF }

// ---------- yamux (only what the server muxer needs) ----------
var sessClosed bool

//verif:model github.com/hashicorp/yamux.DefaultConfig
func mDefaultConfig() *yamux.Config { return new(yamux.Config) }

//verif:model github.com/hashicorp/yamux.Server
func mYServer(conn io.ReadWriteCloser, c *yamux.Config) (*yamux.Session, error) { return new(yamux.Session), nil }

//verif:model (*github.com/hashicorp/yamux.Session).Close
func mSessClose(s *yamux.Session) error { sessClosed = true; return nil }

type vConn struct{ net.Conn }

func (vConn) Close() error { return nil }

func harnessC18() {
	mux := vChoice(2) == 1
	vSetenv("COOKIE", "V")
	if mux {
		vCover("mux")
		vSetenv("PLUGIN_MULTIPLEX_GRPC", "true")
	} else {
		vCover("no-mux")
	}
	opts := &ServeConfig{
		HandshakeConfig: HandshakeConfig{ProtocolVersion: 1, MagicCookieKey: "COOKIE", MagicCookieValue: "V"},
		Plugins:         PluginSet{"a": vPlugGRPC{}},
		GRPCServer:      newServer,
		Logger:          vLogger{},
	}
	returned := false
	go func() { Serve(opts); returned = true }()
	vSleepUntil(1)
	vAssert(len(stdout) == 1 && len(listeners) == 1, "plugin is serving")
	sock := listeners[0].path
	vAssert(files[sock], "the main socket file exists while serving")
	// the host connects (the muxer needs its one connection), then asks for shutdown as GRPCClient.Close does
	listeners[0].q <- vConn{}
	vSleepUntil(2)
	controller.Shutdown(vCtx{}, &plugin.Empty{})
	vSleepUntil(10 * 1000000000)
	vAssert(returned, "C18: Serve returns after the shutdown request")
	vAssert(!files[sock], "C18: the plugin's main socket file is removed after a graceful shutdown")
	left := 0
	for range files {
		left++
	}
	vAssert(left == 0, "C18: nothing go-plugin created is left in the file system")
	vDone()
}
