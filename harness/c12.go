package plugin

import (
	"context"
	"crypto/tls"
	"crypto/x509"
	"encoding/base64"
	"fmt"
	"io"
	"log"
	"net"
	"os"
	"os/signal"
	"time"

	hclog "github.com/hashicorp/go-hclog"
)


type vPlugNet struct{ NetRPCUnsupportedPlugin }

// ---------- process ghost ----------
var (
	exited   bool
	exitCode int
	stdout   []string
	events   []string
	files    = map[string]bool{} // ghost file system
	nTemp    int
)

//verif:model os.Exit
func mExit(code int) { exited = true; exitCode = code; vExitThread() }

//verif:model fmt.Printf
func mPrintf(format string, a ...any) (int, error) {
	stdout = append(stdout, fmt.Sprintf(format, a...))
	events = append(events, "print")
	return 0, nil
}

var tempName = map[*os.File]string{}

//verif:model os.CreateTemp
func mCreateTemp(dir, pattern string) (*os.File, error) {
	f := new(os.File)
	nTemp++
	name := fmt.Sprintf("%s/%s%d", dir, pattern, nTemp)
	tempName[f] = name
	files[name] = true
	return f, nil
}

//verif:model (*os.File).Name
func mFileName(f *os.File) string { return tempName[f] }

//verif:model (*os.File).Close
func mFileClose(f *os.File) error { return nil }

//verif:model os.Remove
func mRemove(name string) error { delete(files, name); return nil }

//verif:model os.Pipe
func mPipe() (*os.File, *os.File, error) { return new(os.File), new(os.File), nil }

//verif:model os/signal.Notify
func mNotify(c chan<- os.Signal, sig ...os.Signal) {}

var _ = signal.Notify

type vAddr struct{ path string }

func (a vAddr) Network() string { return "unix" }
func (a vAddr) String() string  { return a.path }

type vListener struct {
	path   string
	q      chan net.Conn
	closed bool
}

func (l *vListener) Accept() (net.Conn, error) { c := <-l.q; return c, nil }
func (l *vListener) Close() error              { l.closed = true; return nil }
func (l *vListener) Addr() net.Addr            { return vAddr{l.path} }

var listeners []*vListener

//verif:model net.Listen
func mListen(network, address string) (net.Listener, error) {
	l := &vListener{path: address, q: make(chan net.Conn, 1)}
	listeners = append(listeners, l)
	files[address] = true
	events = append(events, "listen")
	return l, nil
}

// ---------- context ----------
type vCtx struct{}

func (vCtx) Deadline() (time.Time, bool) { return time.Time{}, false }
func (vCtx) Done() <-chan struct{}       { return nil }
func (vCtx) Err() error                  { return nil }
func (vCtx) Value(k any) any             { return nil }

//verif:model context.Background
func mBackground() context.Context { return vCtx{} }

// ---------- crypto (opaque) ----------
//verif:model github.com/hashicorp/go-plugin.generateCert
func mGenerateCert() ([]byte, []byte, error) { return []byte("CERTPEM"), []byte("KEYPEM"), nil }

//verif:model crypto/tls.X509KeyPair
func mX509KeyPair(c, k []byte) (tls.Certificate, error) {
	return tls.Certificate{Certificate: [][]byte{[]byte("DER")}}, nil
}

//verif:model crypto/x509.NewCertPool
func mNewCertPool() *x509.CertPool { return new(x509.CertPool) }

//verif:model (*crypto/x509.CertPool).AppendCertsFromPEM
func mAppendCerts(p *x509.CertPool, pem []byte) bool {
	if string(pem) != "CLIENTCERTPEM" { // the one parsable certificate of this run; anything else (empty, damaged) adds nothing
		return false
	}
	poolPEM[p] = append(poolPEM[p], string(pem))
	return true
}

//verif:model (*encoding/base64.Encoding).EncodeToString
func mEncodeToString(e *base64.Encoding, b []byte) string { return "B64(" + string(b) + ")" }

// ---------- logger ----------
type vLogger struct{}

func (vLogger) Log(level hclog.Level, msg string, args ...interface{}) {}
func (vLogger) Trace(msg string, args ...interface{})                   {}
func (vLogger) Debug(msg string, args ...interface{})                   {}
func (vLogger) Info(msg string, args ...interface{})                    {}
func (vLogger) Warn(msg string, args ...interface{})                    {}
func (vLogger) Error(msg string, args ...interface{})                   {}
func (vLogger) IsTrace() bool                                           { return false }
func (vLogger) IsDebug() bool                                           { return false }
func (vLogger) IsInfo() bool                                            { return false }
func (vLogger) IsWarn() bool                                            { return false }
func (vLogger) IsError() bool                                           { return false }
func (vLogger) ImpliedArgs() []interface{}                              { return nil }
func (l vLogger) With(args ...interface{}) hclog.Logger                 { return l }
func (vLogger) Name() string                                            { return "v" }
func (l vLogger) Named(name string) hclog.Logger                        { return l }
func (l vLogger) ResetNamed(name string) hclog.Logger                   { return l }
func (vLogger) SetLevel(level hclog.Level)                              {}
func (vLogger) StandardLogger(o *hclog.StandardLoggerOptions) *log.Logger { return nil }
func (vLogger) StandardWriter(o *hclog.StandardLoggerOptions) io.Writer { return nil }


// ---------- TLS wiring ghosts ----------
var tlsWrapped *tls.Config
var tlsInner net.Listener
var poolPEM = map[*x509.CertPool][]string{}

//verif:model crypto/tls.NewListener
func mTLSNewListener(inner net.Listener, c *tls.Config) net.Listener {
	tlsWrapped, tlsInner = c, inner
	return inner
}

func harnessC12serve() {
	vSetenv("COOKIE", "V")
	mode := vChoice(3)
	auto := mode >= 1
	switch mode {
	case 1:
		vSetenv("PLUGIN_CLIENT_CERT", "CLIENTCERTPEM")
	case 2:
		vSetenv("PLUGIN_CLIENT_CERT", "-----BEGIN CERTIFICATE-----") // set, but damaged on the way: not a parsable certificate
	}
	opts := &ServeConfig{
		HandshakeConfig: HandshakeConfig{ProtocolVersion: 1, MagicCookieKey: "COOKIE", MagicCookieValue: "V"},
		Plugins:         PluginSet{"a": &vPlugNet{}},
		Logger:          vLogger{},
	}
	go func() { vDaemon(); Serve(opts) }()
	vSleepUntil(1)
	vAssert(len(stdout) == 1, "plugin is serving")
	if !auto {
		vCover("plain")
		vAssert(tlsWrapped == nil, "C12: without a client certificate the listener is not wrapped")
		vDone()
	}
	vCover("automtls")
	vAssert(tlsWrapped != nil, "C12: the net/rpc listener is wrapped in TLS before serving")
	rl, isRm := tlsInner.(*rmListener)
	vAssert(isRm && rl.Listener == net.Listener(listeners[0]), "C12: what is wrapped is the plugin's main listener")
	c := tlsWrapped
	vAssert(c.ClientAuth == tls.RequireAndVerifyClientCert, "C12: the plugin requires and verifies a client certificate")
	if mode == 2 {
		vCover("damaged-cert")
		vAssert(c.ClientCAs != nil && len(poolPEM[c.ClientCAs]) == 0, "C12: with a damaged client certificate no client CA is accepted at all (fails closed)")
		vAssert(!c.InsecureSkipVerify && c.VerifyPeerCertificate == nil && c.GetConfigForClient == nil, "C12: no field weakens verification")
		vDone()
	}
	vAssert(c.ClientCAs != nil && len(poolPEM[c.ClientCAs]) == 1 && poolPEM[c.ClientCAs][0] == "CLIENTCERTPEM", "C12: the only accepted client CA is the certificate the host sent")
	vAssert(c.RootCAs == c.ClientCAs, "C12: same pool for both directions")
	vAssert(len(c.Certificates) == 1, "C12: the plugin presents its one generated certificate")
	vAssert(c.MinVersion >= tls.VersionTLS12, "C12: TLS 1.2 or later")
	vAssert(!c.InsecureSkipVerify && c.VerifyPeerCertificate == nil && c.GetConfigForClient == nil, "C12: no field weakens verification")
	// the certificate announced on the handshake line is the one the plugin presents
	vAssert(vCountSep(stdout[0], "|") == 5, "six fields")
	vDone()
}
