package plugin

// World model, part 3: yamux (sessions and streams over a modelled connection) and net/rpc.
//
// yamux contract: a session is a pair of FIFO queues of streams between the two ends of a connection; Open enqueues the
// far end for the peer's Accept; Accept blocks until a stream arrives, or fails once the session is closed or the
// connection is dead; a stream is a pair of FIFOs; in order, loss-free, no cross-talk. yamux's correctness is assumed.

import (
	"errors"
	"io"
	"net"
	"net/rpc"
	"strings"
	"time"

	"github.com/hashicorp/yamux"
)

type wSess struct {
	raw    *wConn
	closed bool
	server bool
}

// a stream end; *yamux.Stream values are handles for it
type wStream struct {
	h      *yamux.Stream
	peer   *wStream
	sess   *wSess
	u32    chan uint32   // broker handshake words
	data   chan string   // stdio chunks
	reqQ   chan *wRPCReq // net/rpc requests towards this end
	closed bool
	closeC chan struct{}
}

var wSessG = map[*yamux.Session]*wSess{}
var wStrmG = map[*yamux.Stream]*wStream{}

//verif:model github.com/hashicorp/yamux.DefaultConfig
func mDefaultConfig() *yamux.Config { return new(yamux.Config) }

//verif:model github.com/hashicorp/yamux.Client
func mYClient(conn io.ReadWriteCloser, c *yamux.Config) (*yamux.Session, error) {
	raw := wRaw(conn)
	if raw == nil {
		return nil, errors.New("yamux over an unmodelled connection")
	}
	s := new(yamux.Session)
	wSessG[s] = &wSess{raw: raw}
	return s, nil
}

// The server end is where both ends have declared how they speak: a failed (TLS) handshake kills the connection.
//
//verif:model github.com/hashicorp/yamux.Server
func mYServer(conn io.ReadWriteCloser, c *yamux.Config) (*yamux.Session, error) {
	raw := wRaw(conn)
	if raw == nil {
		return nil, errors.New("yamux over an unmodelled connection")
	}
	s := new(yamux.Session)
	wSessG[s] = &wSess{raw: raw, server: true}
	if err := wConnHandshake(raw); err != nil {
		wHandshakeFailures++
		raw.shut()
		raw.peer.shut()
	}
	return s, nil
}

var wHandshakeFailures int

// one-way latency of a request on a connection (0 unless a harness sets it): lets a crash fall INSIDE an operation
var wNetDelay int64

func wOpen(s *yamux.Session) (*yamux.Stream, error) {
	g := wSessG[s]
	if g.closed || g.raw.dead() {
		return nil, yamux.ErrSessionShutdown
	}
	near := &wStream{h: new(yamux.Stream), sess: g, u32: make(chan uint32, 8), data: make(chan string, 16), reqQ: make(chan *wRPCReq, 8), closeC: make(chan struct{})}
	far := &wStream{h: new(yamux.Stream), u32: make(chan uint32, 8), data: make(chan string, 16), reqQ: make(chan *wRPCReq, 8), closeC: make(chan struct{})}
	near.peer, far.peer = far, near
	wStrmG[near.h], wStrmG[far.h] = near, far
	select {
	case g.raw.peer.acceptQ <- far:
	default:
		return nil, errors.New("yamux: accept backlog full")
	}
	return near.h, nil
}

//verif:model (*github.com/hashicorp/yamux.Session).Open
func mOpen(s *yamux.Session) (net.Conn, error) {
	st, err := wOpen(s)
	if err != nil {
		return nil, err
	}
	return st, nil
}

//verif:model (*github.com/hashicorp/yamux.Session).OpenStream
func mOpenStream(s *yamux.Session) (*yamux.Stream, error) { return wOpen(s) }

func wAccept(s *yamux.Session) (*yamux.Stream, error) {
	g := wSessG[s]
	if g.closed {
		return nil, yamux.ErrSessionShutdown
	}
	if g.raw.dead() { // streams opened on a connection that died (or never got through its handshake) are not delivered
		return nil, io.EOF
	}
	select {
	case st := <-g.raw.acceptQ:
		st.sess = g
		return st.h, nil
	case <-g.raw.closeCh:
		return nil, io.EOF
	case <-g.raw.peer.closeCh:
		return nil, io.EOF
	}
}

//verif:model (*github.com/hashicorp/yamux.Session).Accept
func mAccept(s *yamux.Session) (net.Conn, error) {
	st, err := wAccept(s)
	if err != nil {
		return nil, err
	}
	return st, nil
}

//verif:model (*github.com/hashicorp/yamux.Session).AcceptStream
func mAcceptStream(s *yamux.Session) (*yamux.Stream, error) { return wAccept(s) }

//verif:model (*github.com/hashicorp/yamux.Session).Addr
func mSessAddr(s *yamux.Session) net.Addr { return wAddr{"unix", "yamux"} }

// Close closes the session and the underlying connection (as yamux does)
//
//verif:model (*github.com/hashicorp/yamux.Session).Close
func mSessClose(s *yamux.Session) error {
	g := wSessG[s]
	if g.closed {
		return nil
	}
	g.closed = true
	g.raw.shut()
	return nil
}

//verif:model (*github.com/hashicorp/yamux.Stream).Close
func mStreamClose(s *yamux.Stream) error {
	g := wStrmG[s]
	if !g.closed {
		g.closed = true
		close(g.closeC)
	}
	return nil
}

//verif:model (*github.com/hashicorp/yamux.Stream).LocalAddr
func mStreamLocalAddr(s *yamux.Stream) net.Addr { return wAddr{"unix", "yamux"} }

//verif:model (*github.com/hashicorp/yamux.Stream).RemoteAddr
func mStreamRemoteAddr(s *yamux.Stream) net.Addr { return wAddr{"unix", "yamux"} }

//verif:model (*github.com/hashicorp/yamux.Stream).SetDeadline
func mStreamSetDeadline(s *yamux.Stream, t time.Time) error { return nil }

func wAsStream(x any) (*wStream, bool) {
	if h, ok := x.(*yamux.Stream); ok {
		return wStrmG[h], true
	}
	return nil, false
}

func (g *wStream) rawConn() *wConn {
	if g.sess != nil {
		return g.sess.raw
	}
	return g.peer.sess.raw.peer
}

// deadC: closed when this stream can no longer deliver anything
func (g *wStream) gone() bool { return g.closed || g.peer.closed || g.rawConn().dead() }

// encoding/binary.Read / Write of a uint32 on a stream (the engine routes them here)
func vStreamReadU32(r io.Reader) (uint32, error) {
	g, ok := wAsStream(r)
	if !ok {
		return 0, errors.New("binary.Read on an unmodelled reader")
	}
	raw := g.rawConn()
	select {
	case v := <-g.u32:
		return v, nil
	case <-g.closeC:
		return 0, io.ErrClosedPipe
	case <-g.peer.closeC:
		return 0, io.EOF
	case <-raw.closeCh:
		return 0, io.EOF
	case <-raw.peer.closeCh:
		return 0, io.EOF
	}
}

func vStreamWriteU32(w io.Writer, v uint32) error {
	g, ok := wAsStream(w)
	if !ok {
		return errors.New("binary.Write on an unmodelled writer")
	}
	if g.gone() {
		return io.ErrClosedPipe
	}
	select {
	case g.peer.u32 <- v:
		return nil
	default:
		return errors.New("yamux: stream window full")
	}
}

func wStreamReadData(g *wStream) (string, bool) {
	raw := g.rawConn()
	select {
	case s := <-g.data:
		return s, true
	case <-g.closeC:
		return "", false
	case <-g.peer.closeC:
		return "", false
	case <-raw.closeCh:
		return "", false
	case <-raw.peer.closeCh:
		return "", false
	}
}

func wStreamWriteData(g *wStream, s string) error {
	if g.gone() {
		return io.ErrClosedPipe
	}
	g.peer.data <- s
	return nil
}

// ---------------------------------------------------------------------------------------------- net/rpc
// Contract: Call("Svc.Method", args, reply) runs the method registered under Svc on the server that serves the other end
// of the connection, in a goroutine of that process, with args and reply marshalled (copied); it fails when the
// connection is closed or the peer is dead; after Close, Call returns rpc.ErrShutdown.
type wRPCReq struct {
	method string
	args   any
	reply  any
	done   chan error
}

type wRPCServer struct{ rcvrs map[string]any }
type wRPCClient struct {
	st     *wStream
	closed bool
}

var wRPCSrvG = map[*rpc.Server]*wRPCServer{}
var wRPCCliG = map[*rpc.Client]*wRPCClient{}

//verif:model net/rpc.NewServer
func mRPCNewServer() *rpc.Server {
	s := new(rpc.Server)
	wRPCSrvG[s] = &wRPCServer{rcvrs: map[string]any{}}
	return s
}

//verif:model (*net/rpc.Server).RegisterName
func mRegisterName(s *rpc.Server, name string, rcvr any) error {
	wRPCSrvG[s].rcvrs[name] = rcvr
	return nil
}

// ServeConn blocks serving the connection until the client hangs up; each request is handled in its own goroutine.
//
//verif:model (*net/rpc.Server).ServeConn
func mServeConn(s *rpc.Server, conn io.ReadWriteCloser) {
	g, ok := wAsStream(conn)
	if !ok {
		return
	}
	srv := wRPCSrvG[s]
	raw := g.rawConn()
	for {
		if raw.dead() { // nothing queued on a dead connection (e.g. one whose handshake failed) is ever read
			return
		}
		select {
		case req := <-g.reqQ:
			if raw.dead() {
				return
			}
			if p := wCurProc(); p != nil && p.frozen {
				continue // a stopped process reads nothing and answers nothing
			}
			go func() {
				svc, method, _ := strings.Cut(req.method, ".")
				rcvr, ok := srv.rcvrs[svc]
				var err error
				if !ok {
					err = errors.New("rpc: can't find service " + req.method)
				} else {
					err = vCallMethod(rcvr, method, req.args, req.reply)
					if err != nil {
						err = rpc.ServerError(err.Error())
					}
				}
				req.done <- err
			}()
		case <-g.closeC:
			return
		case <-g.peer.closeC:
			return
		case <-raw.closeCh:
			return
		case <-raw.peer.closeCh:
			return
		}
	}
}

//verif:model net/rpc.NewClient
func mRPCNewClient(conn io.ReadWriteCloser) *rpc.Client {
	c := new(rpc.Client)
	g, _ := wAsStream(conn)
	wRPCCliG[c] = &wRPCClient{st: g}
	return c
}

//verif:model (*net/rpc.Client).Call
func mRPCCall(c *rpc.Client, serviceMethod string, args any, reply any) error {
	cl := wRPCCliG[c]
	if cl == nil || cl.st == nil {
		return errors.New("rpc: client over an unmodelled connection")
	}
	if cl.closed {
		return rpc.ErrShutdown
	}
	g := cl.st
	if g.gone() {
		return rpc.ErrShutdown
	}
	req := &wRPCReq{method: serviceMethod, args: vClone(args), reply: vNewLike(reply), done: make(chan error, 1)}
	raw := g.rawConn()
	if wNetDelay > 0 { // the request takes time to travel: the peer may die meanwhile
		vSleepUntil(vNow() + wNetDelay)
		if g.gone() {
			return io.ErrUnexpectedEOF
		}
	}
	select {
	case g.peer.reqQ <- req:
	default:
		return errors.New("rpc: request queue full")
	}
	// yamux keep-alive (enabled in the default configuration go-plugin uses): a peer that stops answering - a stopped
	// process - has its session declared dead after at most the keep-alive interval plus the write timeout (40 s)
	var keepalive <-chan time.Time
	if pp := wProcs[raw.peer.owner]; pp != nil && pp.frozen {
		keepalive = time.After(40 * time.Second)
	}
	select {
	case err := <-req.done:
		if err == nil {
			vCopyInto(reply, req.reply)
		}
		return err
	case <-keepalive:
		raw.shut()
		return yamux.ErrKeepAliveTimeout
	case <-g.peer.closeC:
		return io.ErrUnexpectedEOF
	case <-raw.closeCh:
		return io.ErrUnexpectedEOF
	case <-raw.peer.closeCh:
		return io.ErrUnexpectedEOF
	}
}

//verif:model (*net/rpc.Client).Close
func mRPCClose(c *rpc.Client) error {
	cl := wRPCCliG[c]
	if cl.closed {
		return rpc.ErrShutdown
	}
	cl.closed = true
	if cl.st != nil {
		mStreamClose(cl.st.h)
	}
	return nil
}
