package plugin

import (
	"bufio"
	"google.golang.org/grpc"
	"google.golang.org/grpc/codes"
	"google.golang.org/grpc/credentials"
	"google.golang.org/grpc/metadata"
	empty "github.com/golang/protobuf/ptypes/empty"
	"github.com/hashicorp/go-plugin/internal/plugin"
	"context"
	"crypto/x509"
	"encoding/base64"
	"errors"
	"io"
	"log"
	"net"
	"os/exec"
	"time"

	hclog "github.com/hashicorp/go-hclog"
	"github.com/hashicorp/go-plugin/runner"
)


// ---------------- process / runner model ----------------
type vProc struct {
	behaviour int
	delay     int64
	mode    int // 0 line at tLine, 1 stdout EOF at tLine while alive, 2 silent, 3 dies at tLine before output
	line    string
	tLine   int64
	dead    chan struct{}
	isDead  bool
	started int
	killed  int
}

func (p *vProc) die() {
	if !p.isDead {
		p.isDead = true
		close(p.dead)
	}
}

type vPipe struct{ p *vProc }

func (*vPipe) Read(b []byte) (int, error) { return 0, io.EOF }
func (*vPipe) Close() error               { return nil }

type vRunner struct{ p *vProc }

func (r *vRunner) Start(ctx context.Context) error {
	r.p.started++
	if r.p.mode == 3 {
		go func() { vDaemon(); vSleepUntil(r.p.tLine); r.p.die() }()
	}
	return nil
}
func (r *vRunner) Diagnose(ctx context.Context) string { return "" }
func (r *vRunner) Stdout() io.ReadCloser               { return &vPipe{r.p} }
func (r *vRunner) Stderr() io.ReadCloser               { return &vPipe{r.p} }
func (r *vRunner) Name() string                        { return "vplugin" }
func (r *vRunner) Wait(ctx context.Context) error      { <-r.p.dead; return nil }
func (r *vRunner) Kill(ctx context.Context) error      { r.p.killed++; r.p.die(); return nil }
func (r *vRunner) ID() string                          { return "v1" }
func (r *vRunner) PluginToHost(n, a string) (string, string, error) { return n, a, nil }
func (r *vRunner) HostToPlugin(n, a string) (string, string, error) { return n, a, nil }

// ---------------- bufio models ----------------
type scanGhost struct {
	p         *vProc
	delivered bool
	text      string
}

var scanG = map[*bufio.Scanner]*scanGhost{}
var readerG = map[*bufio.Reader]*vProc{}

//verif:model bufio.NewScanner
func mNewScanner(r io.Reader) *bufio.Scanner {
	s := new(bufio.Scanner)
	scanG[s] = &scanGhost{p: r.(*vPipe).p}
	return s
}

//verif:model (*bufio.Scanner).Scan
func mScan(s *bufio.Scanner) bool {
	g := scanG[s]
	if !g.delivered {
		g.delivered = true
		switch g.p.mode {
		case 0:
			vSleepUntil(g.p.tLine)
			g.text = g.p.line
			return true
		case 1:
			vSleepUntil(g.p.tLine)
			return false
		}
	}
	<-g.p.dead
	return false
}

//verif:model (*bufio.Scanner).Text
func mText(s *bufio.Scanner) string { return scanG[s].text }

//verif:model (*bufio.Scanner).Err
func mErr(s *bufio.Scanner) error { return nil }

//verif:model bufio.NewReaderSize
func mNewReaderSize(r io.Reader, n int) *bufio.Reader {
	b := new(bufio.Reader)
	readerG[b] = r.(*vPipe).p
	return b
}

//verif:model (*bufio.Reader).ReadLine
func mReadLine(b *bufio.Reader) ([]byte, bool, error) {
	<-readerG[b].dead
	return nil, false, io.EOF
}

// ---------------- context model ----------------
type vCtx struct {
	done   chan struct{}
	closed bool
}

func (c *vCtx) Deadline() (time.Time, bool) { return time.Time{}, false }
func (c *vCtx) Done() <-chan struct{}       { return c.done }
func (c *vCtx) Err() error {
	if c.closed {
		return context.Canceled
	}
	return nil
}
func (c *vCtx) Value(k any) any { return nil }

//verif:model context.Background
func mBackground() context.Context { return &vCtx{} }

//verif:model context.WithCancel
func mWithCancel(parent context.Context) (context.Context, context.CancelFunc) {
	c := &vCtx{done: make(chan struct{})}
	return c, func() {
		if !c.closed {
			c.closed = true
			close(c.done)
		}
	}
}

//verif:model context.WithTimeout
func mWithTimeout(parent context.Context, d time.Duration) (context.Context, context.CancelFunc) {
	c := &vCtx{done: make(chan struct{})}
	cancel := func() {
		if !c.closed {
			c.closed = true
			close(c.done)
		}
	}
	expire := time.After(d)
	go func() {
		vDaemon()
		select {
		case <-parent.Done():
		case <-expire:
		case <-c.done:
		}
		cancel()
	}()
	return c, cancel
}

// ---------------- os / net / crypto models ----------------
//verif:model os.Environ
func mEnviron() []string { return []string{"HOSTVAR=1"} }

//verif:model os.MkdirTemp
func mMkdirTemp(dir, pattern string) (string, error) { return "/tmp/plugin-dir-v", nil }

//verif:model os.RemoveAll
func mRemoveAll(path string) error { return nil }

//verif:model net.ResolveTCPAddr
func mResolveTCP(network, address string) (*net.TCPAddr, error) {
	if vNondetOK("resolve_tcp", address) {
		return &net.TCPAddr{Port: 1}, nil
	}
	return nil, errors.New("resolve tcp")
}

//verif:model net.ResolveUnixAddr
func mResolveUnix(network, address string) (*net.UnixAddr, error) {
	return &net.UnixAddr{Name: address, Net: "unix"}, nil // never fails for network "unix" (net/unixsock.go)
}

var lastB64 string

//verif:model crypto/x509.NewCertPool
func mNewCertPool() *x509.CertPool { return new(x509.CertPool) }

//verif:model (*encoding/base64.Encoding).DecodeString
func mDecodeString(e *base64.Encoding, s string) ([]byte, error) {
	if vNondetOK("b64", s) {
		lastB64 = s
		return []byte{1}, nil
	}
	return nil, errors.New("b64")
}

//verif:model crypto/x509.ParseCertificate
func mParseCertificate(der []byte) (*x509.Certificate, error) {
	if vNondetOK("x509", lastB64) {
		return new(x509.Certificate), nil
	}
	return nil, errors.New("x509")
}

//verif:model (*crypto/x509.CertPool).AddCert
func mAddCert(p *x509.CertPool, c *x509.Certificate) {}

// ---------------- logger ----------------
type vLogger struct{}

func (vLogger) Log(level hclog.Level, msg string, args ...interface{}) {}
func (vLogger) Trace(msg string, args ...interface{})                   {}
func (vLogger) Debug(msg string, args ...interface{})                   {}
func (vLogger) Info(msg string, args ...interface{})                    {}
func (vLogger) Warn(msg string, args ...interface{})                    {}
func (vLogger) Error(msg string, args ...interface{})                   {}
func (vLogger) IsTrace() bool                                           { return false }
func (vLogger) IsDebug() bool                                           { return false }
func (vLogger) IsInfo() bool                                            { return false }
func (vLogger) IsWarn() bool                                            { return false }
func (vLogger) IsError() bool                                           { return false }
func (vLogger) ImpliedArgs() []interface{}                              { return nil }
func (l vLogger) With(args ...interface{}) hclog.Logger                 { return l }
func (vLogger) Name() string                                            { return "v" }
func (l vLogger) Named(name string) hclog.Logger                        { return l }
func (l vLogger) ResetNamed(name string) hclog.Logger                   { return l }
func (vLogger) SetLevel(level hclog.Level)                              {}
func (vLogger) StandardLogger(o *hclog.StandardLoggerOptions) *log.Logger { return nil }
func (vLogger) StandardWriter(o *hclog.StandardLoggerOptions) io.Writer { return nil }


// ---------------- gRPC seam: models at the generated-client constructors ----------------
//verif:model google.golang.org/grpc.WithDialer
func mWithDialer(f func(string, time.Duration) (net.Conn, error)) grpc.DialOption { return nil }

//verif:model google.golang.org/grpc.FailOnNonTempDialError
func mFailOnNonTemp(b bool) grpc.DialOption { return nil }

//verif:model google.golang.org/grpc.WithInsecure
func mWithInsecure() grpc.DialOption { return nil }

//verif:model google.golang.org/grpc.WithTransportCredentials
func mWithTransportCredentials(c credentials.TransportCredentials) grpc.DialOption { return nil }

//verif:model google.golang.org/grpc.WithDefaultCallOptions
func mWithDefaultCallOptions(o ...grpc.CallOption) grpc.DialOption { return nil }

//verif:model google.golang.org/grpc.MaxCallRecvMsgSize
func mMaxRecv(n int) grpc.CallOption { return nil }

//verif:model google.golang.org/grpc.MaxCallSendMsgSize
func mMaxSend(n int) grpc.CallOption { return nil }

var theProc *vProc

//verif:model google.golang.org/grpc.Dial
func mGrpcDial(target string, opts ...grpc.DialOption) (*grpc.ClientConn, error) { return new(grpc.ClientConn), nil }

//verif:model (*google.golang.org/grpc.ClientConn).Close
func mConnClose(cc *grpc.ClientConn) error { return nil }

//verif:model google.golang.org/grpc/status.Code
func mStatusCode(err error) codes.Code {
	if err == nil {
		return codes.OK
	}
	return codes.Unknown
}

// a client stream that delivers nothing until its context ends
type vStream struct{ ctx context.Context }

func (s *vStream) Header() (metadata.MD, error) { return nil, nil }
func (s *vStream) Trailer() metadata.MD         { return nil }
func (s *vStream) CloseSend() error             { return nil }
func (s *vStream) Context() context.Context     { return s.ctx }
func (s *vStream) SendMsg(m interface{}) error  { return nil }
func (s *vStream) RecvMsg(m interface{}) error  { <-s.ctx.Done(); return io.EOF }

type vBrokerStream struct{ vStream }

func (s *vBrokerStream) Send(i *plugin.ConnInfo) error    { return nil }
func (s *vBrokerStream) Recv() (*plugin.ConnInfo, error) { <-s.ctx.Done(); return nil, io.EOF }

type vBrokerClient struct{}

func (vBrokerClient) StartStream(ctx context.Context, opts ...grpc.CallOption) (plugin.GRPCBroker_StartStreamClient, error) {
	return &vBrokerStream{vStream{ctx}}, nil
}

//verif:model github.com/hashicorp/go-plugin/internal/plugin.NewGRPCBrokerClient
func mNewBrokerClient(cc grpc.ClientConnInterface) plugin.GRPCBrokerClient { return vBrokerClient{} }

type vStdioStream struct{ vStream }

func (s *vStdioStream) Recv() (*plugin.StdioData, error) { <-s.ctx.Done(); return nil, io.EOF }

type vStdioClient struct{}

func (vStdioClient) StreamStdio(ctx context.Context, in *empty.Empty, opts ...grpc.CallOption) (plugin.GRPCStdio_StreamStdioClient, error) {
	return &vStdioStream{vStream{ctx}}, nil
}

//verif:model github.com/hashicorp/go-plugin/internal/plugin.NewGRPCStdioClient
func mNewStdioClient(cc grpc.ClientConnInterface) plugin.GRPCStdioClient { return vStdioClient{} }

// the controller: its Shutdown is where the plugin's behaviour class shows
type vController struct{ p *vProc }

func (c vController) Shutdown(ctx context.Context, in *plugin.Empty, opts ...grpc.CallOption) (*plugin.Empty, error) {
	switch c.p.behaviour {
	case 0: // cooperative: answers, then exits by itself after delay d
		t := vNow() + c.p.delay
		go func() { vDaemon(); vSleepUntil(t); c.p.die() }()
		return &plugin.Empty{}, nil
	case 1: // answers the request but never exits
		return &plugin.Empty{}, nil
	}
	// frozen: no answer; a unary call then returns only when its context ends
	<-ctx.Done()
	return nil, ctx.Err()
}

//verif:model github.com/hashicorp/go-plugin/internal/plugin.NewGRPCControllerClient
func mNewControllerClient(cc grpc.ClientConnInterface) plugin.GRPCControllerClient { return vController{theProc} }

const sec = int64(1000000000)

func harnessC04() {
	p := &vProc{mode: 0, line: "1|1|tcp|127.0.0.1:1234|grpc", tLine: 0, dead: make(chan struct{})}
	p.behaviour = vChoice(3)
	p.delay = vNondetTime("d")
	theProc = p
	r := &vRunner{p}
	cfg := &ClientConfig{
		HandshakeConfig:  HandshakeConfig{ProtocolVersion: 1, MagicCookieKey: "K", MagicCookieValue: "V"},
		Plugins:          PluginSet{},
		AllowedProtocols: []Protocol{ProtocolGRPC},
		Logger:           vLogger{},
		StartTimeout:     60 * time.Second,
		RunnerFunc: func(l hclog.Logger, cmd *exec.Cmd, tmp string) (runner.Runner, error) {
			return r, nil
		},
	}
	c := NewClient(cfg)
	_, err := c.Client()
	vAssume(err == nil)
	vCover("connected")

	t0 := vNow()
	c.Kill() // a hang shows up here as HANG
	el := vNow() - t0
	vCover("kill-returned")
	vAssert(p.isDead, "C04: after Kill the plugin process has exited")
	vAssert(c.Exited(), "C04: after Kill the client reports the plugin as exited")
	vAssert(el <= 5*sec, "C04: Kill returns within a bounded time (shutdown-request deadline 2 s + grace period 2 s + 1 s slack)")
	if p.behaviour == 0 && p.delay < 2*sec {
		vCover("graceful")
		vAssert(p.killed == 0, "C04: a plugin that exits within the grace period is not force-killed")
	} else {
		vCover("forced")
		vAssert(p.killed >= 1, "C04: a plugin that does not exit is force-killed")
	}
	vDone()
}
