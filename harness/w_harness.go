package plugin

// Composite harnesses over the world model: the plugin's real Serve and the host's real Client in one symbolic run.

import (
	"context"
	"crypto/tls"
	"encoding/base64"
	"errors"
	"io"
	"net"
	"net/rpc"
	"os"
	"os/exec"
	"strings"
	"time"

	"google.golang.org/grpc/health/grpc_health_v1"

	hclog "github.com/hashicorp/go-hclog"
	"github.com/hashicorp/go-plugin/runner"
	"google.golang.org/grpc"
)

type wOpts struct {
	grpc    bool // the plugin serves gRPC (else net/rpc)
	mux     bool // the host requests gRPC broker multiplexing
	tls     int  // 0 none, 1 AutoMTLS, 2 static TLS on both sides, 3 host only (mismatch), 4 plugin only (mismatch), 5 host AutoMTLS and a plugin that ignores it (mismatch)
	certMangle int // see wCertMangle
	cmd     bool // launch through exec.Cmd and the real CmdRunner (else RunnerFunc)
	allowed int  // 0 default (nil -> net/rpc only), 1 both, 2 gRPC only
	xlate   bool // custom runner with host and plugin in different file-system namespaces
	noStart int  // 1: fork/exec fails (cmd) or the custom runner's Start fails; 2: RunnerFunc itself returns an error
	extraLines int // scripted plugins (oldLine > 0): further stdout lines written right after the handshake line
	oldLine int  // 0: real Serve; 1: a plugin that prints a six-field gRPC line (no multiplexing support) and waits
	delay   int64
}

type wWorld struct {
	o       wOpts
	c       *Client
	p       *wProc
	plugPl  *wPlug // plugin side
	hostPl  *wPlug // host side
	hostLog wLogger
}

func wStaticTLS() (host, plug *tls.Config) {
	hc, hk, _ := generateCert()
	pc, pk, _ := generateCert()
	hcert, _ := tls.X509KeyPair(hc, hk)
	pcert, _ := tls.X509KeyPair(pc, pk)
	hp, pp := mNewCertPool(), mNewCertPool()
	hp.AppendCertsFromPEM(pc)
	pp.AppendCertsFromPEM(hc)
	host = &tls.Config{Certificates: []tls.Certificate{hcert}, RootCAs: hp, ServerName: "localhost", MinVersion: tls.VersionTLS12}
	plug = &tls.Config{Certificates: []tls.Certificate{pcert}, ClientCAs: pp, ClientAuth: tls.RequireAndVerifyClientCert, MinVersion: tls.VersionTLS12}
	return
}

func wSetup(o wOpts) *wWorld {
	w := &wWorld{o: o, plugPl: &wPlug{delay: o.delay}, hostPl: &wPlug{}, hostLog: newWLogger()}
	var hostTLS, plugTLS *tls.Config
	if o.tls >= 2 {
		hostTLS, plugTLS = wStaticTLS()
	}
	serve := &ServeConfig{HandshakeConfig: wHandshake0, Plugins: PluginSet{"test": w.plugPl}, Logger: newWLogger()}
	if o.grpc {
		serve.GRPCServer = wNewGRPCServer
	}
	if o.tls == 2 || o.tls == 4 {
		serve.TLSProvider = func() (*tls.Config, error) { return plugTLS, nil }
	}
	main := func() { Serve(serve) }
	if o.oldLine > 0 {
		line := "1|1|unix|/tmp/old-plugin|grpc|" // a gRPC plugin built before multiplexing support: six fields
		switch o.oldLine {
		case 2:
			line = "1|1|unix|/tmp/old-plugin" // a legacy plugin: four fields, net/rpc implied
		case 3:
			line = "1|1|unix|/tmp/old-plugin|netrpc"
		case 4:
			line = "1|1|unix|/tmp/old-plugin|grpc"
		}
		main = func() {
			mPrintf("%s\n", line)
			for i := 0; i < o.extraLines; i++ { // a plugin that goes on writing to its stdout after the handshake line
				mPrintf("%s\n", "more output")
			}
			<-wNever
		}
	}
	w.p = newWProc(main)
	cfg := &ClientConfig{
		HandshakeConfig:     wHandshake0,
		Plugins:             PluginSet{"test": w.hostPl},
		Logger:              w.hostLog,
		StartTimeout:        60 * time.Second,
		GRPCBrokerMultiplex: o.mux,
		AutoMTLS:            o.tls == 1 || o.tls == 5,
	}
	wCertMangle = o.certMangle
	if o.tls == 5 {
		wCertMangle = 2
	}
	switch o.allowed {
	case 1:
		cfg.AllowedProtocols = []Protocol{ProtocolNetRPC, ProtocolGRPC}
	case 2:
		cfg.AllowedProtocols = []Protocol{ProtocolGRPC}
	}
	if o.tls == 2 || o.tls == 3 {
		cfg.TLSConfig = hostTLS
	}
	if o.cmd {
		cfg.Cmd = wCommand(w.p)
		wCmdG[cfg.Cmd].execFails = o.noStart == 1
	} else {
		wNamespaces = o.xlate
		cfg.RunnerFunc = func(l hclog.Logger, cmd *exec.Cmd, tmp string) (runner.Runner, error) {
			wSharedDir = tmp
			for _, kv := range cmd.Env {
				k, v, _ := wCut(kv)
				if vIsConcrete(k) {
					if v, keep := wChildEnv(k, v); keep {
						vSetenvProc(w.p.id, k, v)
					}
				}
			}
			if o.noStart == 2 {
				return nil, errors.New("runner: cannot be created")
			}
			return &wRunner{p: w.p, xlate: o.xlate, startFails: o.noStart == 1}, nil
		}
	}
	w.c = NewClient(cfg)
	return w
}

func (o wOpts) protoAllowed() bool {
	switch o.allowed {
	case 0:
		return !o.grpc
	case 2:
		return o.grpc
	}
	return true
}
func (o wOpts) tlsCompatible() bool { return o.tls <= 2 }

// ---------------------------------------------------------------------------------------------- C14: the matrix
func harnessC14matrix() {
	var o wOpts
	o.grpc = vChoice(2) == 1
	o.allowed = vChoice(3)
	o.tls = vChoice(6)
	o.cmd = vChoice(2) == 1
	o.mux = vChoice(2) == 1 // requested by the host whatever the plugin speaks: a net/rpc plugin just ignores it
	if o.mux && !o.grpc {
		vCover("mux-requested-netrpc-plugin")
	}
	w := wSetup(o)
	c, p := w.c, w.p
	addr, err := c.Start()
	if !o.protoAllowed() {
		vCover("protocol-refused")
		vAssert(err != nil, "C14: a plugin speaking a protocol outside the allowed list is refused at start")
		vAssert(p.isDead, "C14: a plugin refused at start is terminated")
		c.Kill()
		vDone()
	}
	if err != nil {
		vRecord("start-error", err.Error())
	}
	vAssert(err == nil && addr != nil, "C14: a compatible configuration starts")
	vAssert(c.Protocol() == ProtocolGRPC == o.grpc, "C14: the client speaks the protocol the plugin announced")
	cp, err := c.Client()
	vAssert(err == nil, "C14: the protocol client is built")
	_, isG := cp.(*GRPCClient)
	vAssert(isG == o.grpc, "C14: the protocol client is of the announced protocol")
	_, err = cp.Dispense("nope")
	vAssert(err != nil, "C14: dispensing an unknown plugin name is an error")
	raw, err := cp.Dispense("test")
	if !o.tlsCompatible() {
		vCover("tls-mismatch")
		if o.tls == 5 {
			vCover("automtls-ignored-by-plugin")
		}
		if err == nil {
			_, err = raw.(wStub).Whoami()
		}
		vAssert(err != nil, "C14: a transport-security mismatch surfaces as an error on first use")
		c.Kill()
		vAssert(p.isDead, "C14: Kill ends the plugin after a transport-security mismatch")
		vDone()
	}
	vAssert(err == nil, "C14: Dispense works end to end")
	tag, err := raw.(wStub).Whoami()
	vAssert(err == nil && tag == 1, "C14: a call through the dispensed client reaches the plugin's implementation")
	vAssert(cp.Ping() == nil, "C14: ping works")
	vCover("works")
	if o.tls == 1 {
		vCover("automtls")
	}
	if o.mux && o.grpc {
		vCover("mux")
	}
	c.Kill()
	vAssert(p.isDead && c.Exited(), "C14: Kill ends the plugin")
	vAssert(p.killed == 0, "C04: a healthy plugin that exits on request is not force-killed")
	vDone()
}

// requesting multiplexing from a plugin that does not advertise it
func harnessC14oldPlugin() {
	o := wOpts{grpc: true, mux: true, allowed: 1, oldLine: 1, cmd: vChoice(2) == 1}
	w := wSetup(o)
	_, err := w.c.Start()
	vAssert(err != nil, "C14: requesting multiplexing from a plugin that does not advertise it fails")
	vAssert(errors.Is(err, ErrGRPCBrokerMuxNotSupported), "C14: ... with the dedicated error")
	vAssert(w.p.isDead, "C14: ... and the plugin is terminated")
	vCover("mux-unsupported")
	vDone()
}

// plugins that announce themselves with shorter (legacy) lines: the allowed-protocol rule applies to the implied protocol
func harnessC14legacyLines() {
	o := wOpts{oldLine: 2 + vChoice(3), allowed: vChoice(3), cmd: vChoice(2) == 1}
	o.grpc = o.oldLine == 4
	w := wSetup(o)
	_, err := w.c.Start()
	if o.protoAllowed() {
		vCover("legacy-accepted")
		vAssert(err == nil, "C14: a legacy line announcing an allowed protocol is accepted")
		vAssert(w.c.Protocol() == ProtocolGRPC == o.grpc, "C14: the client speaks the protocol the legacy line implies")
	} else {
		vCover("legacy-refused")
		vAssert(err != nil, "C14: the client never speaks a protocol outside its allowed list (legacy handshake line)")
		vAssert(w.p.isDead, "C14: a plugin refused at start is terminated (legacy handshake line)")
	}
	w.c.Kill()
	vAssert(w.p.isDead, "C14: Kill ends the plugin (legacy handshake line)")
	vDone()
}

var _ = context.Background
var _ = rpc.NewServer
var _ grpc.ServerOption

// ---------------------------------------------------------------------------------------------- C12: AutoMTLS
// Intruder process: connects to a listener with a given credential class and tries to get a request served.
//   class 0 plaintext; 1 TLS without a client certificate; 2 TLS with a fresh self-signed certificate
// (the intruder does not care about the server's identity: InsecureSkipVerify)
func wIntruderCfg(class int) *tls.Config {
	switch class {
	case 1:
		return &tls.Config{InsecureSkipVerify: true}
	case 2:
		c, k, _ := generateCert()
		cert, _ := tls.X509KeyPair(c, k)
		return &tls.Config{InsecureSkipVerify: true, Certificates: []tls.Certificate{cert}}
	}
	return nil
}

// tries to get a gRPC request answered through listener l; true if anything was served
func wIntrudeGRPC(l *wListener, class int) bool {
	cfg := wIntruderCfg(class)
	cc, err := dialGRPCConn(cfg, func(string, time.Duration) (net.Conn, error) { return net.Dial(l.addr.network, l.addr.addr) })
	if err != nil {
		return false
	}
	ctx, cancel := context.WithTimeout(context.Background(), 3*time.Second)
	defer cancel()
	_, err = grpc_health_v1.NewHealthClient(cc).Check(ctx, &grpc_health_v1.HealthCheckRequest{})
	return err == nil
}

// tries to get a net/rpc request answered through listener l
func wIntrudeRPC(l *wListener, class int) bool {
	conn, err := net.Dial(l.addr.network, l.addr.addr)
	if err != nil {
		return false
	}
	if cfg := wIntruderCfg(class); cfg != nil {
		conn = tls.Client(conn, cfg)
	}
	cl, err := NewRPCClient(conn, PluginSet{"test": &wPlug{}})
	if err != nil {
		return false
	}
	return cl.Ping() == nil
}

func harnessC12() {
	var o wOpts
	o.grpc = vChoice(2) == 1
	o.tls = 1
	o.allowed = 1
	o.cmd = vChoice(2) == 1
	w := wSetup(o)
	c := w.c
	cp, err := c.Client()
	vAssert(err == nil, "C12: the legitimate host connects under AutoMTLS")
	raw, err := cp.Dispense("test")
	vAssert(err == nil, "C12: the legitimate host dispenses under AutoMTLS")
	tag, err := raw.(wStub).Whoami()
	vAssert(err == nil && tag == 1, "C12: the legitimate host's call is served under AutoMTLS")
	vCover("legit-works")

	// brokered listeners in both directions (gRPC, no multiplexing)
	if o.grpc {
		hb := cp.(*GRPCClient).broker
		pbk := w.plugPl.impls[0].gb
		go func() { vDaemon(); hb.AcceptAndServe(71, wNewGRPCServer) }()
		go func() { vDaemon(); vSetProc(w.p.id); pbk.AcceptAndServe(72, wNewGRPCServer) }()
		vSleepUntil(vNow() + sec)
		vCover("brokered-listeners")
	}

	servedBefore := w.plugPl.made
	n := 0
	for _, l := range wListeners {
		if l.closed {
			continue
		}
		n++
		for class := 0; class < 3; class++ {
			vSetProc(2) // the intruder is its own process
			var got bool
			if o.grpc {
				got = wIntrudeGRPC(l, class)
			} else {
				got = wIntrudeRPC(l, class)
			}
			vSetProc(0)
			switch class {
			case 0:
				vAssert(!got, "C12: a plaintext peer is refused before any request is served")
			case 1:
				vAssert(!got, "C12: a peer without a certificate is refused before any request is served")
			case 2:
				vAssert(!got, "C12: a peer with any other certificate is refused before any request is served")
			}
		}
	}
	vAssert(n >= 1, "C12: there is a listener to attack")
	if o.grpc {
		vAssert(n >= 3, "C12: main and both brokered listeners were attacked")
	}
	vAssert(w.plugPl.made == servedBefore, "C12: nothing was dispensed to an intruder")
	vCover("intruders-refused")
	// the legitimate connection is unharmed
	tag, err = raw.(wStub).Whoami()
	vAssert(err == nil && tag == 1, "C12: the legitimate connection keeps working")
	c.Kill()
	vDone()
}

// a launcher that damages the client certificate on its way to the plugin (set, but no longer a parsable
// certificate): the plugin must fail closed - nobody, and in particular no plaintext peer, is served
func harnessC12damagedCert() {
	var o wOpts
	o.grpc = vChoice(2) == 1
	o.tls = 1
	o.certMangle = 1 + vChoice(2) // 1: damaged on the way; 2: dropped (a plugin that takes no part in AutoMTLS and serves in clear text)
	if o.certMangle == 2 {
		vCover("plugin-ignores-automtls")
	}
	o.allowed = 1
	o.cmd = vChoice(2) == 1
	w := wSetup(o)
	c := w.c
	r := wTimed(func() error {
		cp, err := c.Client()
		if err == nil {
			var raw interface{}
			raw, err = cp.Dispense("test")
			if err == nil {
				_, err = raw.(wStub).Whoami()
			}
		}
		return err
	})
	vAssert(!r.panicked, "C12: a damaged client certificate does not make the host panic")
	if r.err != nil {
		vCover("host-refused-too")
	}
	if o.certMangle == 2 {
		// the plugin serves in clear text and announced no certificate: an AutoMTLS host must not talk to it
		vAssert(r.err != nil, "C12: with AutoMTLS the host talks only to a plugin whose certificate came back in the handshake (never in clear text)")
		c.Kill()
		vCover("damaged-cert-done")
		vDone()
	}
	servedBefore := w.plugPl.made
	n := 0
	for _, l := range wListeners {
		if l.closed || l.owner != w.p.id {
			continue
		}
		n++
		for class := 0; class < 3; class++ {
			vSetProc(2)
			var got bool
			if o.grpc {
				got = wIntrudeGRPC(l, class)
			} else {
				got = wIntrudeRPC(l, class)
			}
			vSetProc(0)
			vAssert(!got, "C12: a plugin given a damaged client certificate serves nobody (no plaintext or unauthenticated peer)")
		}
	}
	if !w.p.isDead {
		vAssert(n >= 1, "C12: there is a listener to attack")
		vCover("attacked")
	}
	vAssert(w.plugPl.made == servedBefore, "C12: nothing was dispensed to an intruder")
	c.Kill()
	vCover("damaged-cert-done")
	vDone()
}

// an impostor plugin: announces one certificate on the handshake line and serves with another
func harnessC12impostor() {
	pl := &wPlug{}
	ac, _, _ := generateCert() // announced
	sc, sk, _ := generateCert() // actually served
	scert, _ := tls.X509KeyPair(sc, sk)
	p := newWProc(func() {
		l, _ := net.Listen("unix", "/tmp/impostor")
		tl := tls.NewListener(l, &tls.Config{Certificates: []tls.Certificate{scert}})
		announced := base64.RawStdEncoding.EncodeToString([]byte("DER:" + wCertIdent(ac)))
		mPrintf("%s\n", "1|1|unix|/tmp/impostor|netrpc|"+announced)
		r1, _, _ := os.Pipe()
		r2, _, _ := os.Pipe()
		srv := &RPCServer{Plugins: PluginSet{"test": pl}, Stdout: r1, Stderr: r2, DoneCh: make(chan struct{})}
		srv.Serve(tl)
	})
	cfg := &ClientConfig{HandshakeConfig: wHandshake0, Plugins: PluginSet{"test": &wPlug{}}, Logger: newWLogger(), AutoMTLS: true, Cmd: wCommand(p)}
	c := NewClient(cfg)
	cp, err := c.Client()
	if err == nil {
		var raw interface{}
		raw, err = cp.Dispense("test")
		if err == nil {
			_, err = raw.(wStub).Whoami()
		}
	}
	vAssert(err != nil, "C12: the host refuses a plugin that serves another certificate than the one it announced")
	vAssert(pl.made == 0, "C12: nothing is dispensed by an impostor plugin")
	vCover("impostor-refused")
	c.Kill()
	vDone()
}

// ---------------------------------------------------------------------------------------------- C03: crash points
// The plugin dies (SIGKILL-like: no deferred code runs) at a symbolic instant tDie anywhere in a host history whose
// operations are spread over the symbolic clock. Every operation must return within its bound, without panic, with an
// error when it needed a plugin that was already dead; afterwards the client reports the exit and the context handed
// to gRPC plugin clients is cancelled.
type wOpResult struct {
	err      error
	panicked bool
	took     int64
}

func wTimed(f func() error) (r wOpResult) {
	t0 := vNow()
	r.panicked = true
	func() {
		defer func() { recover() }()
		r.err = f()
		r.panicked = false
	}()
	if r.err != nil {
		vRecord("last-error", r.err.Error())
	}
	r.took = vNow() - t0
	return
}

// harnessC03midline: the plugin dies while it is writing its handshake line - after the address field: inside the
// protocol field, or before the multiplexing field the host asked for. The host gets an error, and the failure is
// final: no later call on that client reports a started plugin.
func harnessC03midline() {
	var o wOpts
	o.allowed = 1
	o.cmd = vChoice(2) == 1
	o.oldLine = 1
	cut := vChoice(3)
	o.mux = cut == 2
	w := wSetup(o)
	part := "1|1|unix|/tmp/old-plugin|gr" // dies inside the protocol field
	switch cut {
	case 1:
		part = "1|1|unix|/tmp/old-plugin|" // dies right after the address field's separator
	case 2:
		part = "1|1|unix|/tmp/old-plugin|grpc|" // dies before the multiplexing field
	}
	w.p.main = func() { mPrintf("%s", part) } // no newline: the process exits, the partial line is what the host reads
	r := wTimed(func() error { _, err := w.c.Start(); return err })
	vAssert(!r.panicked && r.err != nil, "C03: a plugin that dies inside its handshake line is a start error")
	vAssert(r.took <= 61*sec, "C03: ... within the start timeout")
	_, err2 := w.c.Start()
	vAssert(err2 != nil, "C03: the failure is final: a second Start does not report a started plugin")
	vAssert(w.c.Protocol() == ProtocolInvalid, "C03: no protocol is reported for a plugin that died in its handshake")
	vAssert(w.c.ReattachConfig() == nil, "C03: no reattach record for a plugin that died in its handshake")
	_, err3 := w.c.Client()
	vAssert(err3 != nil, "C03: no protocol client for a plugin that died in its handshake")
	w.c.Kill()
	vAssert(w.p.isDead, "C05: the process is gone")
	vCover("died-mid-line")
	vDone()
}

func harnessC03() {
	var o wOpts
	o.grpc = vChoice(2) == 1
	if o.grpc {
		o.mux = vChoice(2) == 1
	}
	o.allowed = 1
	o.cmd = vChoice(2) == 1
	o.delay = 3 * sec // a call on the dispensed implementation takes three seconds
	w := wSetup(o)
	c, p := w.c, w.p
	tBoot := vNondetTime("tBoot") // the plugin needs this long before it prints its line
	vAssume(tBoot <= 5*sec)
	inner := p.main
	p.main = func() { vSleepUntil(tBoot); inner() }
	tDie := vNondetTime("tDie")
	vAssume(tDie <= 100*sec)
	go func() { vDaemon(); vSleepUntil(tDie); p.die() }()
	if vChoice(2) == 1 { // requests take a symbolic time to travel, so that the crash can fall inside a multi-step operation
		vCover("with-latency")
		wNetDelay = vNondetTime("latency")
		vAssume(wNetDelay >= 1 && wNetDelay <= sec/10)
	}

	// t = 0: Start
	r := wTimed(func() error { _, err := c.Start(); return err })
	vAssert(!r.panicked, "C03: Start does not panic whatever the crash point")
	vAssert(r.took <= 61*sec, "C03: Start returns within the start timeout")
	if r.err != nil {
		vCover("start-failed")
		vAssert(p.isDead, "C03: Start fails only if the plugin died around its handshake")
		c.Kill()
		vDone()
	}
	vCover("started")

	// t = 10 s: Client
	vSleepUntil(10 * sec)
	var cp ClientProtocol
	r = wTimed(func() error { var err error; cp, err = c.Client(); return err })
	vAssert(!r.panicked && r.took <= 6*sec, "C03: Client() returns in bounded time without panic")
	if r.err != nil {
		vCover("client-failed")
		vAssert(p.isDead, "C03: Client() fails only if the plugin is dead")
		c.Kill()
		vDone()
	}

	// t = 20 s: Dispense
	vSleepUntil(20 * sec)
	var raw interface{}
	wasDead := p.isDead
	r = wTimed(func() error { var err error; raw, err = cp.Dispense("test"); return err })
	vAssert(!r.panicked && r.took <= 6*sec, "C03: Dispense returns in bounded time without panic")
	if !o.grpc && wasDead {
		vAssert(r.err != nil, "C03: a net/rpc Dispense on a dead plugin returns an error")
	}
	if r.err != nil {
		vAssert(p.isDead, "C03: Dispense fails only if the plugin is dead")
	}

	// t = 30 s: a call that takes 3 s on the plugin side (the crash may fall inside it)
	vSleepUntil(30 * sec)
	if r.err == nil {
		wasDead = p.isDead
		r = wTimed(func() error { _, err := raw.(wStub).Whoami(); return err })
		vAssert(!r.panicked && r.took <= 6*sec, "C03: a call on a dispensed client returns in bounded time without panic")
		if wasDead || tDie < 33*sec {
			vCover("crash-before-or-inside-call")
			vAssert(r.err != nil, "C03: a call interrupted by the crash, or made after it, returns an error")
		}
		if r.err != nil {
			vAssert(p.isDead, "C03: a call fails only if the plugin is dead")
		}
	}

	// t = 40 s: broker accept and dial on IDs nobody else uses
	vSleepUntil(40 * sec)
	if o.grpc {
		b := cp.(*GRPCClient).broker
		r = wTimed(func() error { _, err := b.Accept(901); return err })
		vAssert(!r.panicked && r.took <= 6*sec, "C03: a broker accept returns in bounded time without panic")
		r = wTimed(func() error { // with multiplexing the dial is lazy: the first call is what needs the peer
			cc, err := b.Dial(902)
			if err != nil {
				return err
			}
			ctx, cancel := context.WithTimeout(context.Background(), 20*time.Second)
			defer cancel()
			_, err = wWhoami(cc, ctx)
			return err
		})
		vAssert(!r.panicked && r.took <= 11*sec, "C03: a broker dial (and first call) returns in bounded time without panic")
		vAssert(r.err != nil, "C03: a broker dial nobody serves returns an error")
	} else {
		b := cp.(*RPCClient).broker
		r = wTimed(func() error { _, err := b.Accept(901); return err })
		vAssert(!r.panicked && r.took <= 6*sec, "C03: a broker accept returns in bounded time without panic")
		vAssert(r.err != nil, "C03: a broker accept nobody dials returns an error")
		r = wTimed(func() error { _, err := b.Dial(902); return err })
		vAssert(!r.panicked && r.took <= 6*sec, "C03: a broker dial returns in bounded time without panic")
		vAssert(r.err != nil, "C03: a broker dial nobody accepts returns an error")
		// a second accept after the first one failed: the failure left the broker usable
		r = wTimed(func() error { _, err := b.Accept(903); return err })
		vAssert(!r.panicked && r.took <= 6*sec, "C03: a second broker accept returns in bounded time without panic")
		vAssert(r.err != nil, "C03: a second broker accept nobody dials returns an error")
	}
	vCover("broker-ops-returned")

	// t = 60 s: Ping
	vSleepUntil(60 * sec)
	wasDead = p.isDead
	r = wTimed(func() error { return cp.Ping() })
	vAssert(!r.panicked && r.took <= 6*sec, "C03: Ping returns in bounded time without panic")
	if wasDead {
		vAssert(r.err != nil, "C03: Ping on a dead plugin returns an error")
	}
	if r.err != nil {
		vAssert(p.isDead, "C03: Ping fails only if the plugin is dead")
	}

	// t = 70 s: exit bookkeeping
	vSleepUntil(70 * sec)
	if wasDead {
		vCover("exit-observed")
		vAssert(c.Exited(), "C03: the client reports the plugin as exited")
		vAssert(c.doneCtx.Err() != nil, "C03: the context handed to gRPC plugin clients is cancelled")
	}

	// t = 80 s: Kill
	vSleepUntil(80 * sec)
	r = wTimed(func() error { c.Kill(); return nil })
	vAssert(!r.panicked && r.took <= 6*sec, "C03: Kill returns in bounded time without panic")
	vAssert(p.isDead && c.Exited(), "C04: after Kill the plugin has exited and the client reports it")
	vCover("killed")
	vDone()
}

// ---------------------------------------------------------------------------------------------- C04: Kill
// plugin shutdown behaviour: 0 exits at once when asked; 1 exits after a symbolic clean-up time d; 2 acknowledges the
// request but never exits; 3 frozen (SIGSTOP) before Kill; 4 already crashed before Kill
func wBehave(w *wWorld, behaviour int, d int64) {
	inner := w.p.main
	switch behaviour {
	case 1:
		w.p.main = func() { inner(); vSleepUntil(vNow() + d) }
	case 2:
		w.p.main = func() { inner(); <-wNever }
	}
}

// harnessC04neverStarted: the launch itself fails -- fork/exec fails under the real CmdRunner, the custom runner's
// Start fails, or RunnerFunc returns an error -- then Kill, repeated and from two goroutines at once.
func harnessC04neverStarted() {
	var o wOpts
	o.allowed = 1
	o.cmd = vChoice(2) == 1
	o.noStart = 1
	if !o.cmd && vChoice(2) == 1 {
		o.noStart = 2
	}
	w := wSetup(o)
	c, p := w.c, w.p
	var err error
	r0 := wTimed(func() error {
		if vChoice(2) == 1 {
			_, err = c.Client()
		} else {
			_, err = c.Start()
		}
		return nil
	})
	vAssert(!r0.panicked && err != nil, "C04: a launch that fails is an error, not a panic")
	vAssert(p.started == 0, "the plugin process never existed")
	vCover("launch-failed")
	if vChoice(2) == 1 {
		vCover("concurrent-kill")
		done := make(chan struct{})
		go func() {
			r2 := wTimed(func() error { c.Kill(); return nil })
			vAssert(!r2.panicked, "C04: a concurrent Kill of a never-started plugin does not panic")
			close(done)
		}()
		r := wTimed(func() error { c.Kill(); return nil })
		vAssert(!r.panicked, "C04: Kill of a never-started plugin does not panic")
		vAssert(r.took <= 5*sec, "C04: Kill of a never-started plugin returns within a bounded time")
		<-done
	}
	for i := 0; i < 2; i++ {
		r := wTimed(func() error { c.Kill(); return nil })
		vAssert(!r.panicked, "C04: Kill of a never-started plugin does not panic (repeated)")
		vAssert(r.took <= 5*sec, "C04: Kill of a never-started plugin returns within a bounded time")
	}
	vAssert(p.started == 0, "C04: nothing was launched by Kill")
	r := wTimed(func() error { CleanupClients(); return nil })
	vAssert(!r.panicked && r.took <= 5*sec, "C04: CleanupClients over a never-started managed client returns without panicking")
	vCover("killed")
	vDone()
}

func harnessC04world() {
	var o wOpts
	o.grpc = vChoice(2) == 1
	o.allowed = 1
	o.cmd = vChoice(2) == 1
	behaviour := vChoice(5)
	d := vNondetTime("d")
	vAssume(d <= 10*sec)
	w := wSetup(o)
	c, p := w.c, w.p
	wBehave(w, behaviour, d)
	if vChoice(2) == 1 {
		// a Kill before anything was started (a deferred clean-up that ran early, CleanupClients over a managed client not
		// yet started): there is nothing to kill, and it must not disarm the Kill that comes after the plugin was launched
		vCover("kill-before-start")
		r := wTimed(func() error { c.Kill(); return nil })
		vAssert(!r.panicked && r.took <= sec, "C04: Kill with nothing to kill returns at once")
	}
	if vChoice(2) == 1 {
		// a history in which the protocol client could not be built: the plugin started, then stopped answering
		// (or crashed) before the host connected; Client() fails (net/rpc) or succeeds lazily (gRPC); then Kill
		_, err := c.Start()
		vAssume(err == nil)
		if vChoice(2) == 1 {
			p.frozen = true
		} else {
			p.die()
		}
		vSleepUntil(3 * sec)
		_, cerr := c.Client()
		if cerr != nil {
			vCover("client-failed-before-kill")
		}
		r := wTimed(func() error { c.Kill(); return nil })
		vAssert(!r.panicked, "C04: Kill does not panic after a failed Client()")
		vAssert(r.took <= 5*sec, "C04: Kill returns within a bounded time after a failed Client()")
		vAssert(p.isDead && c.Exited(), "C04: after Kill the plugin has exited and is reported so (failed Client() before)")
		vDone()
	}
	cp, err := c.Client()
	vAssume(err == nil)
	raw, err := cp.Dispense("test")
	vAssume(err == nil)
	_, err = raw.(wStub).Whoami()
	vAssume(err == nil)
	vCover("connected")
	vSleepUntil(10 * sec)
	switch behaviour {
	case 3:
		p.frozen = true
	case 4:
		p.die()
		vSleepUntil(12 * sec)
	}
	twice := vChoice(2) == 1
	// optionally a second Kill from another goroutine, at a symbolic instant while the first may still be in progress
	overlap := make(chan struct{})
	lat := int64(0)
	if behaviour <= 1 && vChoice(2) == 1 {
		// the shutdown request takes a while to reach the plugin (a busy plugin, a slow link): the grace period is
		// counted from the moment the request was delivered, not from the moment Kill was called
		vCover("slow-shutdown-request")
		lat = vNondetTime("killLatency")
		vAssume(lat >= 1 && lat <= sec)
		wNetDelay = lat
		close(overlap)
	} else if vChoice(2) == 1 {
		vCover("overlapping-kill")
		t2 := vNondetTime("t2")
		vAssume(t2 >= 10*sec && t2 <= 16*sec)
		go func() {
			vSleepUntil(t2)
			r2 := wTimed(func() error { c.Kill(); return nil })
			vAssert(!r2.panicked, "C04: an overlapping Kill does not panic")
			vAssert(p.isDead, "C04: after an overlapping Kill returns the plugin process has exited")
			vAssert(c.Exited(), "C04: after an overlapping Kill returns the client reports the plugin as exited")
			close(overlap)
		}()
	} else {
		close(overlap)
	}
	r := wTimed(func() error { c.Kill(); return nil })
	vAssert(!r.panicked, "C04: Kill does not panic")
	vAssert(p.isDead, "C04: after Kill the plugin process has exited")
	vAssert(c.Exited(), "C04: after Kill the client reports the plugin as exited")
	bound := 5*sec + 2*lat // shutdown-request deadline 2 s + grace period 2 s + slack
	if behaviour == 3 && !o.grpc {
		bound = 43 * sec // net/rpc has no deadline of its own: bounded by yamux's keep-alive
	}
	vAssert(r.took <= bound, "C04: Kill returns within a bounded time")
	switch {
	case behaviour == 0 || (behaviour == 1 && d < 2*sec):
		vCover("graceful")
		vAssert(p.killed == 0, "C04: a plugin that exits within the grace period is not force-killed")
	case behaviour == 1 && d > 2*sec, behaviour == 2, behaviour == 3:
		vCover("forced")
		vAssert(p.killed >= 1, "C04: a plugin that does not exit is force-killed")
	case behaviour == 4:
		vCover("already-dead")
	}
	if twice {
		r = wTimed(func() error { c.Kill(); return nil })
		vAssert(!r.panicked && r.took <= sec, "C04: a repeated Kill returns at once without panic")
		vCover("repeated")
	}
	<-overlap
	vDone()
}

// CleanupClients over two managed clients in different states
func harnessC04cleanup() {
	o1 := wOpts{grpc: vChoice(2) == 1, allowed: 1}
	o2 := wOpts{grpc: vChoice(2) == 1, allowed: 1, cmd: true}
	w1, w2 := wSetup(o1), wSetup(o2)
	w1.c.config.Managed, w2.c.config.Managed = true, true
	managedClients = append(managedClients, w1.c, w2.c)
	b2 := vChoice(3) // second plugin: 0 healthy, 2 ignores the request, 5 never started
	wBehave(w2, b2, 0)
	_, err := w1.c.Client()
	vAssert(err == nil, "C04: first managed client connects")
	if b2 != 1 {
		_, err = w2.c.Client()
		if err != nil {
			vRecord("err2", err.Error())
		}
		vAssert(err == nil, "C04: second managed client connects")
	}
	r := wTimed(func() error { CleanupClients(); return nil })
	vAssert(!r.panicked && r.took <= 5*sec, "C04: CleanupClients returns in bounded time without panic")
	vAssert(w1.p.isDead && w1.c.Exited(), "C04: CleanupClients ends the first managed plugin")
	if b2 != 1 {
		vAssert(w2.p.isDead && w2.c.Exited(), "C04: CleanupClients ends the second managed plugin")
	} else {
		vAssert(w2.p.started == 0, "C04: CleanupClients does not launch a client that was never started")
	}
	vCover("cleaned-up")
	vDone()
}

// ---------------------------------------------------------------------------------------------- C15: reattach, test mode
// Test mode: the plugin is served in-process; clients reattach with the configuration Serve hands out, possibly at
// second hand (a configuration taken from a reattached client). Kill on any of them must leave the server running; it
// stops only when its context is cancelled.
func harnessC15testMode() {
	grpcMode := vChoice(2) == 1
	pl := &wPlug{}
	ctx, cancel := context.WithCancel(context.Background())
	rcCh := make(chan *ReattachConfig, 1)
	closeCh := make(chan struct{})
	serve := &ServeConfig{HandshakeConfig: wHandshake0, Plugins: PluginSet{"test": pl}, Logger: newWLogger(),
		Test: &ServeTestConfig{Context: ctx, ReattachConfigCh: rcCh, CloseCh: closeCh}}
	if grpcMode {
		serve.GRPCServer = wNewGRPCServer
	}
	returned := false
	go func() { vDaemon(); Serve(serve); returned = true }()
	rc := <-rcCh
	vAssert(rc.Test, "C15: a test-mode server hands out a test-mode reattach configuration")
	mk := func(r *ReattachConfig) *Client {
		return NewClient(&ClientConfig{HandshakeConfig: wHandshake0, Plugins: PluginSet{"test": &wPlug{}}, Logger: newWLogger(),
			AllowedProtocols: []Protocol{ProtocolNetRPC, ProtocolGRPC}, Reattach: r})
	}
	use := func(c *Client, what string) {
		cp, err := c.Client()
		vAssert(err == nil, "C15: a client built from the reattach configuration connects ("+what+")")
		raw, err := cp.Dispense("test")
		vAssert(err == nil, "C15: ... and can dispense from it ("+what+")")
		_, err = raw.(wStub).Whoami()
		vAssert(err == nil, "C15: ... and its calls are served ("+what+")")
	}
	c1 := mk(rc)
	use(c1, "first hand")
	vAssert(c1.Protocol() == ProtocolGRPC == grpcMode, "C15: the reattached client speaks the running plugin's protocol")
	rc2 := c1.ReattachConfig()
	vAssert(rc2 != nil && rc2.Addr == rc.Addr && rc2.Pid == rc.Pid && rc2.Protocol == rc.Protocol, "C15: ReattachConfig of a reattached client designates the same plugin")
	victim := c1
	if vChoice(2) == 1 {
		vCover("second-hand")
		c2 := mk(rc2)
		use(c2, "second hand")
		victim = c2
	}
	victim.Kill()
	vSleepUntil(vNow() + 3*sec)
	select {
	case <-closeCh:
		vAssert(false, "C15: in test mode Kill on a reattached client leaves the serving process running")
	default:
	}
	vAssert(!returned, "C15: in test mode Kill on a reattached client leaves the serving process running")
	c3 := mk(rc)
	use(c3, "after a Kill on another client")
	vCover("server-survives-kill")
	cancel()
	select {
	case <-closeCh:
	case <-time.After(5 * time.Second):
		vAssert(false, "C15: cancelling the context stops the test-mode server and closes CloseCh")
	}
	vCover("stopped-by-context")
	vDone()
}

// Real process: a client built from the reattach configuration of a running plugin reaches that same plugin, killing
// it terminates that plugin, and reattaching afterwards fails with the process-not-found error.
func harnessC15process() {
	var o wOpts
	o.grpc = vChoice(2) == 1
	o.allowed = 1
	o.cmd = true
	w := wSetup(o)
	c0, p := w.c, w.p
	cp0, err := c0.Client()
	vAssume(err == nil)
	raw0, err := cp0.Dispense("test")
	vAssume(err == nil)
	rc := c0.ReattachConfig()
	vAssert(rc != nil && rc.Pid == p.pid, "C15: the reattach configuration names the running plugin process")
	c1 := NewClient(&ClientConfig{HandshakeConfig: wHandshake0, Plugins: PluginSet{"test": &wPlug{}}, Logger: newWLogger(),
		AllowedProtocols: []Protocol{ProtocolNetRPC, ProtocolGRPC}, Reattach: rc})
	cp1, err := c1.Client()
	vAssert(err == nil, "C15: a client built from the reattach configuration connects to the running plugin")
	vAssert(c1.Protocol() == ProtocolGRPC == o.grpc, "C15: ... with the same protocol")
	raw1, err := cp1.Dispense("test")
	vAssert(err == nil, "C15: ... and can dispense from it")
	t1, err := raw1.(wStub).Whoami()
	vAssert(err == nil, "C15: ... and its calls are served")
	t0, err := raw0.(wStub).Whoami()
	vAssert(err == nil, "C15: the first client keeps working while another is attached")
	if !o.grpc {
		vAssert(t0 == 1 && t1 == 2, "C15: both clients dispense from the same plugin instance")
	}
	vCover("reattached")
	c1.Kill()
	vAssert(p.isDead, "C15: killing the reattached client terminates that plugin")
	vSleepUntil(vNow() + 3*sec)
	vAssert(c1.Exited(), "C15: the reattached client reports the exit")
	vAssert(c0.Exited(), "C15: the first client sees the plugin exit")
	c2 := NewClient(&ClientConfig{HandshakeConfig: wHandshake0, Plugins: PluginSet{"test": &wPlug{}}, Logger: newWLogger(),
		AllowedProtocols: []Protocol{ProtocolNetRPC, ProtocolGRPC}, Reattach: rc})
	_, err = c2.Start()
	vAssert(errors.Is(err, ErrProcessNotFound), "C15: reattaching when nothing is listening fails with the process-not-found error")
	vCover("reattach-after-death")
	c0.Kill()
	vDone()
}

// ---------------------------------------------------------------------------------------------- C18: nothing left behind
func harnessC18world() {
	wTraceOn = vParam("trace") == 1
	var o wOpts
	o.grpc = vChoice(2) == 1
	if o.grpc {
		o.mux = vChoice(2) == 1
	}
	o.allowed = 1
	o.cmd = vChoice(2) == 1
	if o.grpc && vChoice(2) == 1 {
		o.tls = 1 // AutoMTLS: brokered connections (multiplexed or not) carry TLS too
		vCover("automtls")
	}
	if !o.cmd && o.grpc && !o.mux && vChoice(2) == 1 {
		// a runner whose plugin lives in another file-system namespace (a container): only the socket directory the
		// runner was given is shared, and addresses are translated by the runner
		o.xlate = true
		vCover("other-namespace")
	}
	w := wSetup(o)
	if o.xlate && vChoice(2) == 1 {
		w.c.config.UnixSocketConfig = &UnixSocketConfig{} // given, with nothing set
		vCover("unix-socket-config")
	}
	c, p := w.c, w.p
	cp, err := c.Client()
	vAssume(err == nil)
	raw, err := cp.Dispense("test")
	vAssume(err == nil)
	_, err = raw.(wStub).Whoami()
	vAssume(err == nil)
	vCover("dispensed")

	if o.grpc {
		hb := cp.(*GRPCClient).broker
		pbk := w.plugPl.impls[0].gb
		ctx := context.Background()
		if vChoice(2) == 1 { // the host serves, the plugin dials and calls back
			vCover("host-serves")
			go hb.AcceptAndServe(11, func(opts []grpc.ServerOption) *grpc.Server {
				s := grpc.NewServer(opts...)
				wRegisterUser(s, "test", &wImpl{tag: 100})
				return s
			})
			done := make(chan int, 1)
			go func() {
				vSetProc(p.id)
				cc, err := pbk.Dial(11)
				if err != nil {
					done <- -1
					return
				}
				t, err := wWhoami(cc, ctx)
				if err != nil {
					t = -2
				}
				cc.Close()
				done <- t
			}()
			lbl := "C18: a brokered callback from the plugin reaches the host's server"
			if vParam("as") == 14 {
				lbl = "C14: a brokered callback from the plugin works end to end (every combination of multiplexing, transport security and launch method)"
			}
			if vParam("as") == 7 {
				lbl = "C07: a connection the plugin dials for ID n reaches the server the host accepted on ID n (composed; custom runner, possibly another namespace)"
			}
			vAssert(<-done == 100, lbl)
		}
		if nsrv := vChoice(4); nsrv > 0 { // the plugin serves one or two brokered servers, the host dials
			vCover("plugin-serves")
			sameID := nsrv == 3 // two servers one after the other on the SAME ID, the first still serving
			if sameID {
				nsrv = 2
				vCover("two-plugin-servers-one-id")
			}
			for k := 0; k < nsrv; k++ {
				id, tag := uint32(12+2*k), 200+k
				if sameID {
					id = 12
				}
				go func() {
					vSetProc(p.id)
					pbk.AcceptAndServe(id, func(opts []grpc.ServerOption) *grpc.Server {
						s := grpc.NewServer(opts...)
						wRegisterUser(s, "test", &wImpl{tag: tag})
						return s
					})
				}()
				cc, err := hb.Dial(id)
				vAssert(err == nil, "C18: the host dials the plugin's brokered server")
				t, err := wWhoami(cc, ctx)
				if vParam("as") == 14 && !sameID {
					vAssert(err == nil && t == tag, "C14: a brokered call from the host works end to end (every combination of multiplexing, transport security and launch method)")
				}
				if sameID {
					// two servers accepting on one ID at the same time: which of them gets a connection dialled for that ID is
					// not specified (with multiplexing a dial racing with the second Accept is routed to the first listener)
					vAssert(err == nil && (t == 200 || t == 201), "C18: a brokered call from the host reaches one of the plugin's servers on that ID")
				} else {
					vAssert(err == nil && t == tag, "C18: a brokered call from the host reaches the plugin's server")
				}
				cc.Close()
			}
			if nsrv == 2 && !sameID {
				vCover("two-plugin-servers")
			}
		}
		if vChoice(2) == 1 {
			// a brokered server still being STARTED on the plugin when the shutdown arrives: its listener is open and
			// advertised, the caller's server factory has not returned yet
			vCover("plugin-server-factory-in-progress")
			go func() {
				vSetProc(p.id)
				pbk.AcceptAndServe(18, func(opts []grpc.ServerOption) *grpc.Server {
					vSleepUntil(vNow() + 2*sec) // a factory that takes its time (registers many services, loads state)
					return grpc.NewServer(opts...)
				})
			}()
			vSleepUntil(vNow() + sec)
		}
		if !o.mux && !o.cmd && vChoice(2) == 1 { // a host-side brokered listener (in the runner's socket directory) still open when the client is killed
			vCover("host-listener-left-open")
			_, err := hb.Accept(13)
			vAssert(err == nil, "C18: the host opens a brokered listener")
		}
	}

	if !o.grpc && vChoice(2) == 1 { // net/rpc: the host serves an object on a brokered connection, the plugin dials it and calls back
		vCover("rpc-callback")
		hmb := cp.(*RPCClient).broker
		pmb := w.plugPl.impls[0].mb
		go hmb.AcceptAndServe(21, &wImpl{tag: 300})
		done := make(chan int, 1)
		go func() {
			vSetProc(p.id)
			conn, err := pmb.Dial(21)
			if err != nil {
				done <- -1
				return
			}
			cl := rpc.NewClient(conn)
			var r int
			if err := cl.Call("Plugin.Whoami", 0, &r); err != nil {
				r = -2
			}
			cl.Close()
			done <- r
		}()
		vAssert(<-done == 300, "C06: a brokered net/rpc callback from the plugin reaches the object the host serves on that ID")
	}

	if vChoice(2) == 1 {
		// the common pattern `defer client.Kill(); defer proto.Close()`: the protocol client is closed first, the
		// plugin exits on its own and the exit is recorded, and only then comes Kill
		vCover("closed-before-kill")
		cp.Close()
		vSleepUntil(vNow() + 3*sec)
		vAssert(p.isDead && c.Exited(), "C04: closing the protocol client makes the plugin exit")
	}
	c.Kill()
	vAssert(p.isDead && p.killed == 0, "C18: the plugin exits gracefully")
	vSleepUntil(vNow() + 6*sec)
	left := ""
	for f := range wFiles {
		left += " " + f
	}
	if left != "" {
		vRecord("files-left", left)
	}
	vAssert(len(wFiles) == 0, "C18: no socket file or temporary directory created by go-plugin is left after a graceful shutdown")
	vAssert(vLiveGoroutines() == 0, "C18: no goroutine started by go-plugin for the client remains in the host a few seconds after Kill")
	vCover("clean")
	vDone()
}

// harnessC18shutdownOrder: gRPC without multiplexing, launched through exec.Cmd; one brokered server established on the
// plugin; then Kill, under every schedule within the reversal bound: whatever the order in which the plugin's
// goroutines run during the shutdown, its brokered socket is gone when the process has exited.
func harnessC18shutdownOrder() {
	var o wOpts
	o.grpc = true
	o.allowed = 1
	o.cmd = true
	w := wSetup(o)
	c, p := w.c, w.p
	cp, err := c.Client()
	vAssume(err == nil)
	raw, err := cp.Dispense("test")
	vAssume(err == nil)
	_, err = raw.(wStub).Whoami()
	vAssume(err == nil)
	hb := cp.(*GRPCClient).broker
	pbk := w.plugPl.impls[0].gb
	go func() {
		vSetProc(p.id)
		pbk.AcceptAndServe(12, func(opts []grpc.ServerOption) *grpc.Server {
			s := grpc.NewServer(opts...)
			wRegisterUser(s, "test", &wImpl{tag: 200})
			return s
		})
	}()
	cc, err := hb.Dial(12)
	vAssume(err == nil)
	t, err := wWhoami(cc, context.Background())
	vAssume(err == nil && t == 200)
	cc.Close()
	vCover("brokered-server-established")
	c.Kill()
	vAssert(p.isDead, "C04: after Kill the plugin process has exited")
	if p.killed == 0 {
		vSleepUntil(vNow() + 6*sec)
		left := ""
		for f := range wFiles {
			left += " " + f
		}
		if left != "" {
			vRecord("files-left", left)
		}
		vAssert(len(wFiles) == 0, "C18: no socket file is left after a graceful shutdown, whatever the order in which the plugin's goroutines run while it shuts down")
		vCover("graceful")
	}
	vDone()
}

// ---------------------------------------------------------------------------------------------- C17: launch environment
func wEffective(env []string, key string) (string, bool) {
	for i := len(env) - 1; i >= 0; i-- {
		k, v, ok := strings.Cut(env[i], "=")
		if ok && k == key {
			return v, true
		}
	}
	return "", false
}

func harnessC17world() {
	hk, hv := vNondetStr("hostkey", "="), vNondetStr("hostval", "")
	wHostEnv = []string{hk + "=" + hv} // the host's own environment: one arbitrary variable
	var o wOpts
	o.allowed = 1
	o.grpc = vChoice(2) == 1
	o.cmd = vChoice(2) == 1
	if vChoice(2) == 1 {
		o.tls = 1
	}
	if o.grpc {
		o.mux = vChoice(2) == 1
	}
	group := ""
	if vChoice(2) == 1 {
		group = "plugins"
	}
	skip := vChoice(2) == 1
	w := wSetup(o)
	cfg := w.c.config
	cfg.SkipHostEnv = skip
	cfg.MinPort, cfg.MaxPort = 10000, 10500
	wantMin := "10000"
	if vChoice(2) == 1 {
		cfg.MinPort, wantMin = 0, "0" // a bound of zero is a value like any other: it is passed, not left to be inherited
		vCover("zero-min-port")
	}
	if group != "" {
		cfg.UnixSocketConfig = &UnixSocketConfig{Group: group}
	}
	presetKey := "" // a variable the CALLER put on the command is part of the configuration, not of the host environment
	if o.cmd && vChoice(2) == 1 {
		vCover("cmd-env-preset")
		pk, pv := vNondetStr("presetkey", "="), vNondetStr("presetval", "")
		vAssume(pk != "")
		presetKey = pk
		cfg.Cmd.Env = []string{pk + "=" + pv}
	}
	var got []string
	var gotStdin io.Reader
	var gotTmp string
	if !o.cmd {
		inner := cfg.RunnerFunc
		cfg.RunnerFunc = func(l hclog.Logger, cmd *exec.Cmd, tmp string) (runner.Runner, error) {
			got, gotStdin, gotTmp = cmd.Env, cmd.Stdin, tmp
			return inner(l, cmd, tmp)
		}
	}
	_, err := w.c.Start()
	if o.cmd {
		got, gotStdin = wLastCmdEnv, wLastCmdStdin
	}
	vAssert(got != nil, "C17: the launched command received an environment")
	v, ok := wEffective(got, "COOKIE")
	vAssert(ok && v == "V", "C17: the magic cookie is passed")
	v, ok = wEffective(got, "PLUGIN_MIN_PORT")
	vAssert(ok && v == wantMin, "C17: the port range is passed (min)")
	v, ok = wEffective(got, "PLUGIN_MAX_PORT")
	vAssert(ok && v == "10500", "C17: the port range is passed (max)")
	v, ok = wEffective(got, "PLUGIN_PROTOCOL_VERSIONS")
	vAssert(ok && v == "1", "C17: exactly the offered protocol versions are passed")
	_, hasCert := wEffective(got, "PLUGIN_CLIENT_CERT")
	vAssert(hasCert == (o.tls == 1) || presetKey == "PLUGIN_CLIENT_CERT", "C17: a client certificate is passed exactly when AutoMTLS is on")
	_, hasMux := wEffective(got, "PLUGIN_MULTIPLEX_GRPC")
	vAssert(hasMux == o.mux || presetKey == "PLUGIN_MULTIPLEX_GRPC", "C17: the multiplexing flag is passed exactly when multiplexing is requested")
	g, hasGroup := wEffective(got, "PLUGIN_UNIX_SOCKET_GROUP")
	if group != "" {
		vCover("socket-group")
		vAssert(hasGroup && g == group, "C17: the socket group is passed when configured")
	} else {
		vAssert(!hasGroup || presetKey == "PLUGIN_UNIX_SOCKET_GROUP", "C17: no socket group is passed unless configured")
	}
	d, hasDir := wEffective(got, "PLUGIN_UNIX_SOCKET_DIR")
	if o.cmd {
		vCover("cmd-launch")
		vAssert(!hasDir || presetKey == "PLUGIN_UNIX_SOCKET_DIR", "C17: no socket directory is passed for a command launch")
	} else {
		vCover("runner-launch")
		vAssert(hasDir && d == gotTmp && d != "", "C17: the socket directory created for a custom runner is passed")
	}
	vAssert(gotStdin == io.Reader(os.Stdin), "C17: the launched command gets the host's stdin")
	if skip {
		vCover("skip-host-env")
		_, leaked := wEffective(got, hk)
		vAssert(!leaked || hk == presetKey || hk == "COOKIE" || hk == "PLUGIN_MIN_PORT" || hk == "PLUGIN_MAX_PORT" || hk == "PLUGIN_PROTOCOL_VERSIONS" || hk == "PLUGIN_CLIENT_CERT" || hk == "PLUGIN_MULTIPLEX_GRPC" || hk == "PLUGIN_UNIX_SOCKET_DIR" || hk == "PLUGIN_UNIX_SOCKET_GROUP",
			"C17: with SkipHostEnv no host variable is passed")
	}
	vAssert(err == nil, "C17: the plugin launched with this environment starts")
	w.c.Kill()
	vDone()
}

// ---------------------------------------------------------------------------------------------- C13: check before launch
// hash.Hash whose digest is an arbitrary byte string (an uninterpreted function of the file's content)
type wHash struct{ sum []byte }

func (h *wHash) Write(p []byte) (int, error) { return len(p), nil }
func (h *wHash) Sum(b []byte) []byte          { return h.sum }
func (h *wHash) Reset()                       {}
func (h *wHash) Size() int                    { return len(h.sum) }
func (h *wHash) BlockSize() int               { return 1 }

func harnessC13start() {
	var o wOpts
	o.allowed = 1
	o.cmd = vChoice(2) == 1
	d := vNondetBytes("d", 2)
	c := vNondetBytes("c", 3)
	missing := false
	if o.cmd && vChoice(2) == 1 {
		// the file cannot be opened where Check looks for it (e.g. a relative Path that os/exec resolves against cmd.Dir
		// while Check resolves it against the host's working directory): nothing can be verified, nothing may be launched
		vCover("file-not-found")
		missing = true
		wCmdPath = "./wplugin"
	} else if o.cmd && vChoice(2) == 1 {
		// the command path runs through a symbolic link followed by "..": the file the kernel executes (digest d) is not
		// the file the lexically cleaned path names - and that one is a decoy whose digest IS the configured checksum
		vCover("path-through-symlink")
		wCmdPath = "/d/link/../wplugin"
		wRegular[wCmdPath] = d
		wRegular["/d/wplugin"] = c
	} else if o.cmd && vChoice(2) == 1 {
		// the command has a working directory and an absolute Path: the kernel executes Path as it stands (digest d); a
		// file of the same name below the working directory is a decoy whose digest IS the configured checksum
		vCover("working-directory-set")
		wCmdDir = "/work"
		wRegular["/bin/wplugin"] = d
		wRegular["/work/bin/wplugin"] = c
	} else {
		wRegular["/bin/wplugin"] = d
	}
	w := wSetup(o)
	w.c.config.SecureConfig = &SecureConfig{Checksum: c, Hash: &wHash{}}
	_, err := w.c.Start()
	equal := len(c) == len(d)
	if equal {
		for i := 0; i < len(c); i++ {
			if c[i] != d[i] {
				equal = false
			}
		}
	}
	launched := w.p.started > 0
	if missing {
		vAssert(!launched && err != nil, "C13: a binary that cannot be read for verification is not launched")
		w.c.Kill()
		vDone()
	}
	if o.cmd {
		if equal && len(c) > 0 {
			vCover("launched")
			vAssert(launched && err == nil, "C13: with a matching checksum the binary is executed")
		} else {
			vCover("refused")
			vAssert(!launched, "C13: with any other checksum no process is launched")
			vAssert(err != nil, "C13: with any other checksum Start returns an error")
			if len(c) > 0 {
				vAssert(errors.Is(err, ErrChecksumsDoNotMatch), "C13: a mismatch is reported with ErrChecksumsDoNotMatch")
			}
		}
	} else {
		// a custom runner has no binary path to verify: the check cannot succeed, so nothing may be launched
		vCover("runnerfunc-refused")
		vAssert(!launched && err != nil, "C13: a SecureConfig that cannot be verified (custom runner, no binary path) launches nothing")
	}
	w.c.Kill()
	vDone()
}

// ---------------------------------------------------------------------------------------------- C05: Kill after a failed start
func harnessC05killAfter() {
	var o wOpts
	o.allowed = vChoice(2) // default (net/rpc only) or both
	o.cmd = vChoice(2) == 1
	o.oldLine = 1 + vChoice(6) // 1..4 scripted lines; 5: garbage; 6: a plugin that never writes a line (start timeout)
	o.mux = o.oldLine == 1     // a six-field gRPC line with multiplexing requested: refused
	o.extraLines = 2 * vChoice(2)
	if o.extraLines > 0 {
		vCover("more-stdout-after-the-line")
	}
	w := wSetup(o)
	if o.oldLine == 5 {
		w.p.main = func() {
			mPrintf("%s\n", "this is not a handshake")
			for i := 0; i < o.extraLines; i++ {
				mPrintf("%s\n", "more output")
			}
			<-wNever
		}
	}
	if vChoice(2) == 1 {
		w.c.config.UnixSocketConfig = &UnixSocketConfig{} // given, with nothing set
		vCover("unix-socket-config")
	}
	if o.oldLine == 6 {
		w.p.main = func() { <-wNever }
		vCover("silent-until-start-timeout")
	}
	dirsBefore := len(wFiles)
	_, err := w.c.Start()
	if err == nil {
		vCover("start-succeeded")
		w.c.Kill()
		vDone()
	}
	vCover("start-failed")
	vAssert(w.p.isDead, "C05: a failed start has terminated the launched process")
	if vChoice(2) == 1 {
		vSleepUntil(vNow() + 3*sec) // the exit has been recorded by the client's wait goroutine
		vCover("kill-later")
	}
	if vChoice(2) == 1 {
		// the caller tries again before cleaning up (Start, Client or Protocol): refused, and it must not make the
		// client forget what the first attempt created
		vCover("second-start-before-kill")
		_, err2 := w.c.Start()
		vAssert(err2 != nil, "C19: a second Start after a failed one does not succeed")
	}
	r := wTimed(func() error { w.c.Kill(); return nil })
	vAssert(!r.panicked && r.took <= sec, "C05: a later Kill returns promptly")
	vAssert(len(wFiles) <= dirsBefore, "C05: Kill removes the temporary socket directory created for a custom runner")
	left := ""
	for f := range wFiles {
		left += " " + f
	}
	vAssert(left == "", "C05: nothing created for the failed start is left behind")
	vDone()
}

// harnessC10exitTail: a plugin launched through exec.Cmd writes a burst of stderr lines (a panic trace, say) and exits;
// the host's Stderr sink is slow. Everything the plugin wrote reaches the sink, in order: the process is reaped
// (exec.Cmd.Wait closes the pipes) only after the copy has finished.
type wSlowWriter struct {
	chunks []string
	delay  int64
}

func (w *wSlowWriter) Write(p []byte) (int, error) {
	vSleepUntil(vNow() + w.delay)
	w.chunks = append(w.chunks, string(p))
	return len(p), nil
}

func harnessC10exitTail() {
	var o wOpts
	o.allowed = 1
	o.cmd = true
	o.oldLine = 3 // a scripted net/rpc plugin: five-field line
	w := wSetup(o)
	l1, l2, l3 := "panic: boom", "goroutine 1 [running]:", "main.main()" // what a crashing plugin leaves on its stderr
	w.p.main = func() {
		mPrintf("%s\n", "1|1|unix|/tmp/old-plugin|netrpc")
		vSleepUntil(sec)
		w.p.stderr.write(l1) // one pipe item = one line (ReadLine strips the terminator)
		w.p.stderr.write(l2)
		w.p.stderr.write(l3)
	} // returning is exit(0)
	sink := &wSlowWriter{delay: sec / 2}
	w.c.config.Stderr = sink
	_, err := w.c.Start()
	vAssume(err == nil)
	vSleepUntil(20 * sec)
	vAssert(w.c.Exited(), "C03: the host notices that the plugin exited")
	var lines []string
	for _, ch := range sink.chunks {
		if ch != "\n" {
			lines = append(lines, ch)
		}
	}
	vAssert(len(lines) == 3 && lines[0] == l1 && lines[1] == l2 && lines[2] == l3, "C10: every stderr line written before the plugin exited is copied to the stderr writer, in order (the process is not reaped while the copy is still going on)")
	vCover("tail-copied")
	w.c.Kill()
	vDone()
}

// ---------------------------------------------------------------------------------------------- C11: synced stdio, composed
type wRecWriter struct{ chunks []string }

func (w *wRecWriter) Write(p []byte) (int, error) {
	w.chunks = append(w.chunks, string(p))
	return len(p), nil
}

// The plugin writes to its process stdout and stderr after serving began - partly before the host has attached - and the
// host's sync writers must receive exactly that, per stream, in order, nothing crossed. Chunks are arbitrary contents of
// symbolic length (<= 1 KiB so that one write is one chunk on the gRPC path).
func harnessC11world() {
	var o wOpts
	o.grpc = vChoice(2) == 1
	if o.grpc {
		o.mux = vChoice(2) == 1
	}
	o.allowed = 1
	o.cmd = vChoice(2) == 1
	w := wSetup(o)
	out, errw := &wRecWriter{}, &wRecWriter{}
	w.c.config.SyncStdout, w.c.config.SyncStderr = out, errw
	o1, o2, e1 := vNondetStr("o1", ""), vNondetStr("o2", ""), vNondetStr("e1", "")
	vAssume(len(o1) >= 1 && len(o1) <= 1024 && len(o2) >= 1 && len(o2) <= 1024 && len(e1) >= 1 && len(e1) <= 1024)
	_, err := w.c.Start()
	vAssume(err == nil)
	early := vChoice(2) == 1
	write := func(toErr bool, s string) {
		done := make(chan struct{})
		go func() { vSetProc(w.p.id); wPluginWrite(toErr, s); close(done) }()
		<-done
	}
	if early {
		vCover("written-before-attach")
		write(false, o1)
		write(true, e1)
	}
	cp, err := w.c.Client()
	vAssume(err == nil)
	_ = cp
	if !early {
		write(false, o1)
		write(true, e1)
	}
	write(false, o2)
	vSleepUntil(vNow() + 2*sec)
	vRecord("n-out", len(out.chunks))
	vRecord("n-err", len(errw.chunks))
	vAssert(len(out.chunks) == 2, "C11: the host's SyncStdout receives what the plugin wrote to its stdout (two chunks)")
	vAssert(out.chunks[0] == o1 && out.chunks[1] == o2, "C11: the host's SyncStdout receives exactly what the plugin wrote to its stdout, in order")
	vAssert(len(errw.chunks) == 1 && errw.chunks[0] == e1, "C11: the host's SyncStderr receives exactly what the plugin wrote to its stderr")
	vCover("delivered")
	// a long-lived client: output written well after the host attached is still delivered
	o3 := vNondetStr("o3", "")
	vAssume(len(o3) >= 1 && len(o3) <= 1024)
	vSleepUntil(vNow() + 30*sec)
	write(false, o3)
	vSleepUntil(vNow() + 2*sec)
	vAssert(len(out.chunks) == 3 && out.chunks[2] == o3, "C11: output written long after the host attached is still delivered (the connection is alive)")
	vCover("late-output")
	w.c.Kill()
	vDone()
}

// harnessC11secondHost: gRPC, launched through exec.Cmd. The first host attaches and receives output; its connection
// then goes away without the plugin being shut down (the reattach launch method: the host process ended); the plugin
// writes while nobody is attached; a second host reattaches and must receive that output, in order, before anything
// written later.
func harnessC11secondHost() {
	var o wOpts
	o.grpc = true
	o.allowed = 1
	o.cmd = true
	w := wSetup(o)
	out1, err1 := &wRecWriter{}, &wRecWriter{}
	w.c.config.SyncStdout, w.c.config.SyncStderr = out1, err1
	o1, o2, o3, e2 := vNondetStr("o1", ""), vNondetStr("o2", ""), vNondetStr("o3", ""), vNondetStr("e2", "")
	vAssume(len(o1) >= 1 && len(o1) <= 1024 && len(o2) >= 1 && len(o2) <= 1024 && len(o3) >= 1 && len(o3) <= 1024 && len(e2) >= 1 && len(e2) <= 1024)
	write := func(toErr bool, s string) {
		done := make(chan struct{})
		go func() { vSetProc(w.p.id); wPluginWrite(toErr, s); close(done) }()
		<-done
	}
	cp1, err := w.c.Client()
	vAssume(err == nil)
	write(false, o1)
	vSleepUntil(vNow() + 1*sec)
	vAssert(len(out1.chunks) == 1 && out1.chunks[0] == o1, "C11: the first host receives what the plugin wrote while it was attached")
	rc := w.c.ReattachConfig()
	vAssume(rc != nil)
	cp1.(*GRPCClient).Conn.Close() // the first host goes away; the plugin keeps running
	vSleepUntil(vNow() + 1*sec)
	vAssert(!w.p.isDead, "the plugin survives its host's connection going away")
	write(false, o2) // nobody is attached
	write(true, e2)
	vSleepUntil(vNow() + 1*sec)
	vCover("written-while-detached")
	out2, err2 := &wRecWriter{}, &wRecWriter{}
	c2 := NewClient(&ClientConfig{HandshakeConfig: wHandshake0, Plugins: PluginSet{"test": &wPlug{}}, Logger: newWLogger(),
		AllowedProtocols: []Protocol{ProtocolGRPC}, Reattach: rc, SyncStdout: out2, SyncStderr: err2})
	_, err = c2.Client()
	vAssert(err == nil, "C15: a second host reattaches to the running plugin")
	write(false, o3)
	vSleepUntil(vNow() + 2*sec)
	vAssert(len(out1.chunks) == 1, "C11: nothing more reaches the host that went away")
	vAssert(len(out2.chunks) == 2 && out2.chunks[0] == o2 && out2.chunks[1] == o3, "C11: output written while no host was attached is delivered, in order, to the host that attaches next (nothing dropped)")
	vAssert(len(err2.chunks) == 1 && err2.chunks[0] == e2, "C11: stderr written while no host was attached is delivered to the host that attaches next")
	vCover("delivered-to-second-host")
	c2.Kill()
	vDone()
}

// ---------------------------------------------------------------------------------------------- one ClientConfig, two clients
// A host that keeps one *ClientConfig and builds a client from it for every launch (restart after a crash, a second
// instance): go-plugin writes into that configuration during Start (Plugins, TLSConfig, VersionedPlugins), so the
// second launch sees what the first left behind. The first plugin serves only version 1, the second only version 2;
// the configuration offers version 1 through VersionedPlugins and version 2 through the legacy ProtocolVersion+Plugins
// pair. Checked for the second launch as for the first: version and set (C02), environment (C17), trust pool (C12).
func harnessSharedConfig() {
	auto := vChoice(2) == 1
	grpcMode := vChoice(2) == 1
	plL, plV := &wPlug{}, &wPlug{}
	cookie := HandshakeConfig{MagicCookieKey: wHandshake0.MagicCookieKey, MagicCookieValue: wHandshake0.MagicCookieValue}
	mk := func(ver int) *wProc {
		serve := &ServeConfig{HandshakeConfig: cookie, VersionedPlugins: map[int]PluginSet{ver: {"test": &wPlug{}}}, Logger: newWLogger()}
		if grpcMode {
			serve.GRPCServer = wNewGRPCServer
		}
		return newWProc(func() { Serve(serve) })
	}
	procs := []*wProc{mk(1), mk(2)}
	var envs [][]string
	hs := cookie
	hs.ProtocolVersion = 2
	cfg := &ClientConfig{
		HandshakeConfig:  hs,
		Plugins:          PluginSet{"test": plL},
		VersionedPlugins: map[int]PluginSet{1: {"test": plV}},
		Logger:           newWLogger(),
		StartTimeout:     60 * time.Second,
		AutoMTLS:         auto,
		AllowedProtocols: []Protocol{ProtocolNetRPC, ProtocolGRPC},
	}
	wCertMangle = 0
	cfg.RunnerFunc = func(l hclog.Logger, cmd *exec.Cmd, tmp string) (runner.Runner, error) {
		p := procs[len(envs)]
		envs = append(envs, cmd.Env)
		for _, kv := range cmd.Env {
			k, v, _ := wCut(kv)
			if vIsConcrete(k) {
				vSetenvProc(p.id, k, v)
			}
		}
		return &wRunner{p: p}, nil
	}
	want := []*wPlug{plV, plL}
	for i := 0; i < 2; i++ {
		c := NewClient(cfg)
		_, err := c.Start()
		offered, _ := wEffective(envs[i], "PLUGIN_PROTOCOL_VERSIONS")
		vAssert(offered == "1,2" || offered == "2,1", "C17: exactly the offered protocol versions are passed - the legacy pair's version and the versioned sets' - on every launch")
		vAssert(err == nil, "C02: a launch whose version sets intersect starts (one ClientConfig, launch after launch)")
		vAssert(c.NegotiatedVersion() == i+1, "C02: the client reports the common version as negotiated (one ClientConfig, launch after launch)")
		vAssert(cfg.Plugins["test"] == Plugin(want[i]), "C02: the host uses the plugin set registered under the negotiated version, also when an earlier launch from the same ClientConfig negotiated another version")
		_, hasCert := wEffective(envs[i], "PLUGIN_CLIENT_CERT")
		vAssert(hasCert == auto, "C17: the child gets a client certificate exactly when AutoMTLS is on, on every launch from the same ClientConfig")
		cp, err := c.Client()
		vAssert(err == nil, "C14: the protocol client is built (one ClientConfig, launch after launch)")
		raw, err := cp.Dispense("test")
		vAssert(err == nil, "C14: Dispense works on every launch from the same ClientConfig")
		_, err = raw.(wStub).Whoami()
		vAssert(err == nil, "C14: a call works on every launch from the same ClientConfig")
		if auto {
			vAssert(cfg.TLSConfig != nil && cfg.TLSConfig.RootCAs != nil && len(wPoolG[cfg.TLSConfig.RootCAs]) == 1, "C12: the host trusts exactly the one certificate that came back in THIS launch's handshake (not those of earlier launches from the same ClientConfig)")
			vAssert(cfg.TLSConfig.ClientCAs == nil || len(wPoolG[cfg.TLSConfig.ClientCAs]) == 1, "C12: host-side brokered listeners accept exactly this launch's plugin certificate")
		}
		if i == 0 {
			vCover("first-launch")
		} else {
			vCover("second-launch")
		}
		c.Kill()
	}
	vDone()
}

// ---------------------------------------------------------------------------------------------- C19 / C20: concurrent use
// Two goroutines use one Client at the same time, each performing one of the public operations; all schedules within
// the reversal bound. Launch at most once; equal results; no panic; no data race inside go-plugin.
func harnessC19concurrent() {
	var o wOpts
	o.grpc = vChoice(2) == 1
	o.allowed = 1
	if vChoice(2) == 1 {
		o.tls = 1 // AutoMTLS: Start generates a certificate before it launches
		vCover("automtls")
	}
	w := wSetup(o)
	c, p := w.c, w.p
	var addrs [2]net.Addr
	var clients [2]ClientProtocol
	var errs [2]error
	op := [2]int{vChoice(4), vChoice(4)}
	done := make(chan struct{}, 2)
	for g := 0; g < 2; g++ {
		g := g
		go func() {
			switch op[g] {
			case 0:
				addrs[g], errs[g] = c.Start()
			case 1:
				clients[g], errs[g] = c.Client()
			case 2:
				_ = c.Protocol()
				_ = c.Exited()
				_ = c.ID()
				_ = c.ReattachConfig()
			case 3:
				c.Kill()
			}
			done <- struct{}{}
		}()
	}
	<-done
	<-done
	vAssert(p.started <= 1, "C19: the plugin is launched at most once under concurrent use")
	if op[0] == 0 && op[1] == 0 && errs[0] == nil && errs[1] == nil {
		vCover("two-starts")
		vAssert(addrs[0] == addrs[1], "C19: all successful Start calls return the same address")
	}
	if op[0] == 1 && op[1] == 1 && errs[0] == nil && errs[1] == nil {
		vCover("two-clients")
		vAssert(clients[0] == clients[1], "C19: all successful Client calls return the same protocol client")
	}
	c.Kill()
	vAssert(p.started == 0 || p.isDead, "C19: after Kill the plugin is gone")
	before := p.started
	c.Start()
	if before >= 1 { // a client that never launched anything has nothing to launch "again"
		vAssert(p.started == before, "C19: after Kill no call launches the plugin again")
	}
	vCover("done")
	vDone()
}

// ---------------------------------------------------------------------------------------------- C20: shutdown racing with AcceptAndServe
// A brokered gRPC server is being started (AcceptAndServe, on the host or inside the plugin) while the client is
// killed: all schedules up to the reversal bound, race detection on; on the host another AcceptAndServe is issued
// after the shutdown has returned.
func harnessC20serveShutdown() {
	var o wOpts
	o.grpc = true
	o.mux = vChoice(2) == 1
	o.allowed = 1
	w := wSetup(o)
	c, p := w.c, w.p
	cp, err := c.Client()
	vAssume(err == nil)
	raw, err := cp.Dispense("test")
	vAssume(err == nil)
	_, err = raw.(wStub).Whoami()
	vAssume(err == nil)
	hb := cp.(*GRPCClient).broker
	pbk := w.plugPl.impls[0].gb
	mk := func(opts []grpc.ServerOption) *grpc.Server {
		s := grpc.NewServer(opts...)
		wRegisterUser(s, "test", &wImpl{tag: 1})
		return s
	}
	side := vChoice(2)
	served := make(chan struct{}, 1)
	go func() {
		if side == 1 {
			vSetProc(p.id)
			pbk.AcceptAndServe(31, mk)
		} else {
			hb.AcceptAndServe(31, mk)
		}
		served <- struct{}{}
	}()
	c.Kill()
	vAssert(p.isDead, "C04: after Kill the plugin process has exited")
	if side == 0 {
		<-served // the server started during the shutdown ends with the broker
	}
	if p.killed == 0 { // a graceful exit: in every schedule nothing go-plugin created is left behind
		left := ""
		for f := range wFiles {
			left += " " + f
		}
		if left != "" {
			vRecord("files-left", left)
		}
		vAssert(len(wFiles) == 0, "C18: no socket file or temporary directory is left after a graceful shutdown, in any schedule of the shutdown against a brokered server being started")
		vCover("graceful")
	}
	if side == 0 {
		vCover("host-side")
		hb.AcceptAndServe(32, mk) // and one started after the shutdown returns too (no panic)
		vCover("after-shutdown")
	} else {
		vCover("plugin-side")
	}
	vCover("shut-down")
	vDone()
}

// ---------------------------------------------------------------------------------------------- C16: the plugin side alone
// A plugin process started with an arbitrary environment: cookie variable unset or an arbitrary string, multiplexing
// variable unset / empty / "true" / another value, client certificate set or not; it serves net/rpc or gRPC, with plain
// or versioned plugin sets.
func harnessC16world() {
	grpcMode := vChoice(2) == 1
	versioned := vChoice(2) == 1
	pl := &wPlug{}
	serve := &ServeConfig{HandshakeConfig: wHandshake0, Logger: newWLogger()}
	if versioned {
		serve.VersionedPlugins = map[int]PluginSet{2: {"test": pl}, 3: {"test": pl}}
	} else {
		serve.Plugins = PluginSet{"test": pl}
	}
	if grpcMode {
		serve.GRPCServer = wNewGRPCServer
	}
	if vChoice(2) == 1 {
		serve.MagicCookieKey = "" // a misconfigured plugin
		vCover("no-cookie-key")
	}
	p := newWProc(func() { Serve(serve) })
	envSet := vChoice(2) == 1
	envVal := vNondetStr("envval", "")
	if envSet {
		vSetenvProc(p.id, "COOKIE", envVal)
	}
	muxMode := vChoice(4) // 0 unset, 1 "true", 2 some other non-empty value, 3 set but empty
	switch muxMode {
	case 1:
		vSetenvProc(p.id, "PLUGIN_MULTIPLEX_GRPC", "true")
	case 2:
		mv := vNondetStr("muxval", "")
		vAssume(mv != "")
		vSetenvProc(p.id, "PLUGIN_MULTIPLEX_GRPC", mv)
	case 3:
		vSetenvProc(p.id, "PLUGIN_MULTIPLEX_GRPC", "")
	}
	if vChoice(2) == 1 {
		c, _, _ := generateCert()
		vSetenvProc(p.id, "PLUGIN_CLIENT_CERT", string(c))
		vCover("client-cert")
	}
	if vChoice(2) == 1 {
		// a socket directory whose name contains a per cent sign (it comes from the host, or from $TMPDIR): the address
		// is announced exactly as it is listened on
		vCover("percent-in-socket-dir")
		vSetenvProc(p.id, "PLUGIN_UNIX_SOCKET_DIR", "/tmp/50%done")
	}
	if versioned {
		if vChoice(2) == 1 {
			// a launcher that sends a version list with an entry that is not a number ("3, 2" with a blank, a trailing
			// comma, "v2"): the entry is ignored; whatever go-plugin has to say about it does not go to the real stdout
			vCover("damaged-version-entry")
			vSetenvProc(p.id, "PLUGIN_PROTOCOL_VERSIONS", "3,v2, 2,")
		} else {
			vSetenvProc(p.id, "PLUGIN_PROTOCOL_VERSIONS", "3,2")
		}
	}
	p.launch()
	vSleepUntil(sec)
	cookieOK := serve.MagicCookieKey != "" && envSet && envVal == "V"
	if !cookieOK {
		vCover("refused")
		vAssert(p.isDead && p.exitCode == 1, "C16: wrong or missing cookie exits with status 1")
		vAssert(len(wStdoutLines) == 0, "C16: nothing is printed to stdout without the cookie")
		vAssert(len(wListeners) == 0, "C16: no listener is opened without the cookie")
		vDone()
	}
	vCover("serving")
	vAssert(!p.isDead, "C16: with the cookie the plugin serves")
	vAssert(len(wStdoutLines) == 1, "C16: exactly one line on the plugin's real stdout")
	vAssert(len(wEvents) >= 2 && wEvents[0] == "listen" && wEvents[len(wEvents)-1] == "print", "C16: the listener exists before the line is printed")
	line := strings.TrimSuffix(wStdoutLines[0], "\n")
	vAssert(line+"\n" == wStdoutLines[0], "C16: the line ends with a newline")
	seps := vCountSep(line, "|")
	if muxMode == 0 || muxMode == 3 {
		vAssert(seps == 5, "C16: six fields when the host did not signal multiplexing")
	} else {
		vAssert(seps == 6, "C16: seven fields exactly when the host signalled multiplexing")
	}
	parts := strings.Split(line, "|")
	vAssert(parts[0] == "1", "C16: the line starts with the core protocol version")
	if versioned {
		vAssert(parts[1] == "3", "C16: the line carries the negotiated application version")
	} else {
		vAssert(parts[1] == "1", "C16: the line carries the application version")
	}
	want := "netrpc"
	if grpcMode {
		want = "grpc"
	}
	vAssert(parts[4] == want, "C16: the line announces the protocol served")
	// the announced address is accepting connections when the line appears
	found := false
	for _, l := range wListeners {
		if !l.closed && l.addr.network == parts[2] && l.addr.addr == parts[3] {
			found = true
		}
	}
	vAssert(found, "C16: the announced address is already accepting connections when the line appears")
	// the plugin PROGRAM now prints to its os.Stdout and os.Stderr (go-plugin has redirected both): none of that may
	// appear on the real stdout, which carries the handshake line and nothing else
	func() {
		done := make(chan struct{})
		go func() {
			vSetProc(p.id)
			wPluginWrite(false, "output of the plugin program\n")
			wPluginWrite(true, "diagnostics of the plugin program\n")
			close(done)
		}()
		<-done
	}()
	vSleepUntil(vNow() + 2*sec)
	vAssert(len(wStdoutLines) == 1, "C16: go-plugin writes nothing but the handshake line to the plugin's real stdout (what the program prints later is not copied there)")
	vCover("program-output-after-handshake")
	vDone()
}
