#!/usr/bin/env python3
"""Single source for harness/spec/<id>.json (what each check runs, with which bound) and harness/claims.json
(what MANIFEST.json claims). Run: python3 harness/mkspec.py && python3 tools_manifest.py"""
import json, os
HERE = os.path.dirname(os.path.abspath(__file__))
SPECS, CLAIMS = {}, {}


def run(name, entry, covers, quick=None, thorough=None, dpor=False, **kw):
    t = {}
    if quick is not None:
        t["quick"] = quick
    if thorough is not None:
        t["thorough"] = thorough
    r = {"name": name, "entry": entry, "covers": covers, "tiers": t}
    if dpor:
        r["dpor"] = True
    r.update(kw)
    return r


def prop(id, files, runs, assumptions, stubs, outside, text=None, note=None, reason=None, thorough=True):
    SPECS[id] = {"property": id, "files": files, "runs": runs, "assumptions": assumptions, "stubs": stubs, "outside": outside}
    if text:
        CLAIMS[id] = {"claimed": True, "text": text, "note": note, "thorough": thorough}
    else:
        CLAIMS[id] = {"claimed": False, "reason": reason}


PROC = "process model: a scripted runner.Runner (RunnerFunc) whose stdout delivers one arbitrary line at a symbolic instant, or EOF while alive, or nothing, or dies before output; Kill makes it dead; Wait returns when dead"
BUFIO = "bufio.Scanner/bufio.Reader replaced by contract models (one line per Scan; ReadLine blocks until the process is dead, then EOF)"
CTX = "context.WithCancel/WithTimeout replaced by a channel-based model with the same Done/Err contract"
STR = "strings are concatenations of atoms of an uninterpreted sort with attribute functions (len, atoi_ok/atoi_val, equality with literals, b64/x509/resolve predicates); every axiom is a true fact about Go strings; a first line is quantified as its unique decomposition lead-ws ++ f0|f1|...|f(n-1) ++ trail-ws with n <= 8"
NET = "net.ResolveTCPAddr is nondeterministic in its address argument (success returns a non-nil *TCPAddr, failure returns (nil *TCPAddr, err)); net.ResolveUnixAddr(\"unix\", x) never fails"
CRYPTO = "base64 decoding and x509 parsing are uninterpreted predicates of the field (with realisability facts); CertPool is opaque"
ENGINE = "Trusted: z3 4.8.12; the SSA interpreter and the environment models of DESIGN.md section 4 (each listed in the evidence file)."
WORLD = ["prims.go", "m_print.go", "w_base.go", "w_net.go", "w_yamux.go", "w_grpc.go", "w_compose.go", "w_harness.go"]
WORLD_ASSUME = ["world model (harness/w_*.go): processes with per-process environment, pipes, ghost file system, listeners and connections by address, yamux sessions/streams as FIFO pairs, net/rpc calls served by the real receiver in a goroutine of the peer process with marshalled (copied) arguments, gRPC cut at the generated-code interfaces (real broker/controller/stdio implementations registered and served), crypto/tls as a contract over tls.Config fields with certificates as identities",
                "the plugin process runs go-plugin's real Serve; the host runs the real NewClient/Start/Client/Dispense/Kill; launch through a RunnerFunc runner or through exec.Cmd models under the real CmdRunner"]
WORLD_STUBS = ["os/exec", "os (files, pipes, env, exit)", "net", "bufio", "io.Copy", "context", "crypto/tls", "crypto/x509", "encoding/base64", "generateCert", "yamux", "net/rpc", "grpc", "health/reflection registration", "cmdrunner.additionalNotesAboutCommand"]

# ------------------------------------------------------------------------------------------------ C01 / C05
C01_BOUND = "first stdout line = any byte string with <= 8 '|'-separated fields of unbounded length; process behaviour in {line at symbolic instant, EOF while alive, silent, dies before output}; AllowedProtocols in {nil,[netrpc],[grpc],[netrpc,grpc]}; TLSConfig nil/set; GRPCBrokerMultiplex on/off; one offered version (symbolic, >= 0); RunnerFunc launch"
prop("C01", ["prims.go", "c01.go"],
     [run("start", "harnessC01", ["accepted", "rejected"], quick={"bound": C01_BOUND, "witness": 24, "params": {"full": 0}}, native="start"),
      run("start-full", "harnessC01", ["accepted", "rejected", "two-versions"], quick={"skip": True},
          thorough={"params": {"full": 1}, "max_wall_s": 1500, "bound": C01_BOUND + "; additionally a second offered version through VersionedPlugins (symbolic, distinct) and a runner address translator that is the identity, fails, or rewrites the address"})],
     [PROC, BUFIO, CTX, STR, NET, CRYPTO, "StartTimeout = 60 s on the symbolic clock"],
     ["bufio.Scanner", "bufio.Reader", "context", "os.Environ/MkdirTemp/RemoveAll", "net.Resolve*", "encoding/base64", "crypto/x509", "hclog.Logger (no-op)"],
     "a second stdout line; more than 8 fields (the code reads indices <= 6); what the real resolver does with particular addresses; launch by exec.Cmd",
     text="Bounded symbolic model checking of the whole real Client.Start (option checks, environment construction, deferred kill/re-panic, its goroutines, the select, the parser, checkProtoVersion, loadServerCert) against a reference predicate over the fields of the first stdout line: for every line (all byte strings, <= 8 fields) and every configuration in the bound the solver shows Start errs or returns a usable address, succeeds only for well-formed lines, reports exactly the line's protocol/version, never panics and returns within the start timeout on a symbolic clock.",
     note="Bound: " + C01_BOUND + ". Contracts: resolver, base64 and x509 outcomes are uninterpreted predicates; bufio/context/process are models. " + ENGINE)
prop("C05", ["prims.go", "c01.go"],
     [run("start", "harnessC01", ["rejected"], native="start", quick={"witness": 24, "params": {"full": 0}, "bound": "as C01: every rejection cause the solver finds feasible (each field invalid in turn, timeout, EOF while alive, exit before output) x the configuration space of C01"}),
      run("kill-after", "harnessC05killAfter", ["start-failed", "start-succeeded", "kill-later", "more-stdout-after-the-line", "unix-socket-config", "second-start-before-kill", "silent-until-start-timeout"], files=WORLD,
          quick={"bound": "scripted plugins announcing five kinds of line (multiplexing unsupported, 4-field, net/rpc, gRPC, garbage) or none at all until the start timeout (the RunnerFunc runner honours the context its Kill is given), followed or not by two more stdout lines, x allowed list x launch {RunnerFunc, exec.Cmd}; UnixSocketConfig nil or given; after a failed Start, optionally a second Start, then Kill at once or three seconds later: returns promptly, process dead, socket directory removed"})],
     [PROC, BUFIO, CTX, STR, NET, CRYPTO], ["as C01"],
     "launch by exec.Cmd (the real CmdRunner); process liveness is the model's (Kill was called on the runner)",
     text="Same symbolic run of the real Client.Start as C01 with the kill clause as the assertion: on every feasible path on which the runner was started and Start returns an error or panics, the runner's Kill has been called by then. Failure causes are not enumerated by hand - they are the paths the solver finds feasible.",
     note="Bound as C01. The process is a model: 'terminated' means runner.Kill was invoked. " + ENGINE)

# ------------------------------------------------------------------------------------------------ C02
prop("C02", ["prims.go", "c02a.go"],
     [run("core", "harnessC02a", ["common", "disjoint"], native="version", quick={"witness": 16, "bound": "host and plugin each with 2 versioned sets, versions arbitrary distinct ints; every map iteration order on both sides; PLUGIN_PROTOCOL_VERSIONS built as Start builds it"}),
      run("composed", "harnessC02b", ["common", "disjoint", "inherited-version-list", "plugin-legacy-pair-and-versioned"], files=["prims.go", "m_print.go", "c02b.go"],
          quick={"bound": "host's real Start composed with the plugin's real Serve in one run: 2 x 2 versioned sets (the plugin optionally with the legacy ProtocolVersion+Plugins pair as a third version), arbitrary distinct versions, every map order; the version list travels through the real environment construction, the real protocolVersion, the printed line and the real parser; the host's own environment is skipped, or is copied and carries a PLUGIN_PROTOCOL_VERSIONS inherited from the host's own launch (one arbitrary version)"}),
      run("shared-config", "harnessSharedConfig", ["first-launch", "second-launch"], files=WORLD,
          quick={"bound": "one *ClientConfig used for two launches (RunnerFunc; net/rpc or gRPC; AutoMTLS on or off): the first plugin serves only version 1 (offered through VersionedPlugins), the second only version 2 (offered through the legacy ProtocolVersion+Plugins pair); each launch: Start, Client, Dispense, call, Kill; checked per launch: negotiated version and plugin set, client-certificate variable, size of the host's trust pool"}),
      run("general", "harnessC02n", ["common", "fallback-lowest", "host-legacy", "plugin-legacy", "no-list", "damaged-list", "host-refuses"], files=["prims.go", "c02a.go", "c02c.go"], no_map_perm=True,
          quick={"skip": True},
          thorough={"params": {"n": 2}, "max_wall_s": 1500, "bound": "2 versioned sets per side plus optionally the legacy ProtocolVersion+Plugins pair on either side (so up to 3 x 3 versions, including version 0 and a legacy pair colliding with a versioned key), gRPC server factory configured or not, each plugin set net/rpc or gRPC, version list exact / missing / one entry damaged; insertion-order map iteration in this run"})],
     [STR, "os.Getenv reads the modelled process environment", "composed run: process, listener and file models of the C16 harness"], ["os.Getenv", "net.Listen", "os.Pipe", "bufio"],
     "more than 3 versions per side; map-order permutations in the general run (they are explored in the core and composed runs)",
     text="Bounded symbolic model checking of the real protocolVersion (with the real sort.Sort/sort.Reverse SSA) and the real checkProtoVersion over arbitrary version numbers on both sides and every map iteration order, against a reference 'highest common version' computed in the harness; the composed run sends the list through the host's real Start and the plugin's real Serve; the general run (thorough) adds the legacy pair on either side, the gRPC server factory and set kinds (wire protocol of the chosen set), a missing and a damaged list.",
     note="Bound: 2 versioned sets per side (+ the plugin's legacy pair, + an inherited version list, + one ClientConfig over two launches in quick; both sides' legacy pairs and damaged lists in the thorough run). " + ENGINE)

# ------------------------------------------------------------------------------------------------ C13
prop("C13", ["prims.go", "c13.go"],
     [run("check", "harnessC13", ["match", "mismatch", "empty-checksum", "nil-hash", "open-fails", "checked-twice"], native="check",
          quick={"witness": 16, "params": {"bytes": 4}, "bound": "digest <= 4 bytes and checksum <= 5 bytes of BitVec 8, symbolic lengths; Hash nil or not; file open failing or not; then a second check on the same SecureConfig with the file's digest arbitrary again (unchanged or replaced); the hash model remembers what was fed since the last Reset"},
          thorough={"witness": 32, "params": {"bytes": 8}, "bound": "digest <= 8 bytes and checksum <= 9 bytes of BitVec 8, symbolic lengths; Hash nil or not; file open failing or not; second check as in quick"}),
      run("start-order", "harnessC13start", ["launched", "refused", "runnerfunc-refused", "path-through-symlink", "file-not-found", "working-directory-set"], files=WORLD,
          quick={"bound": "whole Client.Start composed with a real plugin, launch through exec.Cmd and through a RunnerFunc, SecureConfig with digest <= 2 and checksum <= 3 symbolic bytes: the process is launched iff the checksum matches the digest of the file the kernel executes; command path plain, not openable where Check looks for it, through a symbolic link followed by '..' with a decoy (digest = the checksum) at the lexically cleaned path, or absolute with cmd.Dir set and a decoy at Dir+Path"})],
     ["hash.Hash is a harness implementation returning an arbitrary digest (the hash function itself is outside the claim)", "os.Open/io.Copy/File.Close modelled: open may fail"],
     ["os.Open", "io.Copy", "hash.Hash"], "digests longer than the bound; the hash function",
     text="Bounded symbolic model checking of the real SecureConfig.Check (including the real crypto/subtle.ConstantTimeCompare SSA) over every digest/checksum byte string within the length bound: the solver shows Check returns (true,nil) iff checksum == digest, and the documented sentinel errors otherwise. Right level because the property is a universal statement over byte strings whose rare points (prefix, extension, one flipped bit) are satisfying assignments, not samples.",
     note="Bound: digest <= 4 / checksum <= 5 bytes quick, two checks per SecureConfig; command path plain / not openable / through a symbolic link / with a working directory. Trusted: the hash function (a harness hash.Hash returns an arbitrary digest and remembers what was fed since the last Reset), os.Open/io.Copy contract models with file identity by exact path. " + ENGINE)

# ------------------------------------------------------------------------------------------------ C10
READLINE = "bufio.Reader.ReadLine is an exact chunking function of (line length L, terminator in {LF, CRLF, none at EOF}, buffer size B >= 16): full-buffer prefix chunks with isPrefix, final chunk stripped of its terminator, then (nil,false,io.EOF)"
JSONM = "encoding/json.Unmarshal into map[string]interface{} is a nondeterministic class: syntax error; non-object; object whose @message/@level/@timestamp are each absent / string / non-string plus <= 1 further key; an object followed by trailing bytes is a syntax error for Unmarshal and one decoded value for json.Decoder.Decode (modelled over bytes.NewReader); time.Parse is an uninterpreted predicate"
SCANNER = "bufio.Scanner: yields each line without terminator; a line over 64 KiB makes Scan return false with ErrTooLong and nothing further is read by the scanner"
prop("C10", ["prims.go", "c10.go"],
     [run("stderr", "harnessC10", ["single", "chunked", "hclog-json", "text", "object-then-trailing-bytes"],
          quick={"bound": "one stderr line of symbolic length <= 3 buffer-fulls, buffer size symbolic in [16, 2^20], terminator LF/CRLF/none; JSON classes with one extra key, also a JSON object followed by further bytes (not JSON as a whole: a text line); text prefix classes"}),
      run("stderr-two-lines", "harnessC10two", ["first-line-single", "first-line-chunked", "first-line-exact-fit", "hclog-json", "text", "inside-panic-trace"],
          quick={"bound": "two stderr lines: the first a text line (plain / panic: / [LEVEL]) of symbolic length <= 2 buffers (shorter than, exactly, longer than the buffer), the second a one-piece line over the full class space; buffer size symbolic in [16, 2^20]"}),
      run("panic-trace", "harnessC10trace", ["trace-done"],
          quick={"bound": "six stderr lines: 'panic: <symbolic>', three unprefixed symbolic text lines, '[INFO] ...', one unprefixed symbolic text line; LF or CRLF on one of them; every line shorter than the buffer"}),
      run("exit-tail", "harnessC10exitTail", ["tail-copied"], files=WORLD,
          quick={"bound": "a scripted plugin launched through exec.Cmd (the real CmdRunner; exec.Cmd.Wait closes the pipes once the command has exited) writes three stderr lines and exits; the host's Stderr writer takes half a second per write; everything written is copied, in order"}),
      run("stdout", "harnessC10stdout", ["after-handshake"], files=["prims.go", "c10b.go"],
          quick={"bound": "whole Client.Start with a valid handshake line followed by three stdout lines, the first of symbolic length <= 2^20 (either side of the 64 KiB Scanner limit)"}),
      ],
     [READLINE, JSONM, SCANNER, STR, "hclog.Logger is a recording harness implementation; hclog.LevelFromString runs from its real SSA"],
     ["bufio.Reader.ReadLine", "encoding/json.Unmarshal", "time.Parse", "hclog.Logger"],
     "more than two stderr lines per run; lines longer than 3 buffers; the bytes inside a chunk (opaque views)",
     text="Bounded symbolic model checking of the real logStderr/parseJSON/flattenKVPairs over one stderr line of symbolic length and a symbolic log-buffer size (so shorter/equal/longer-than-buffer and CRLF/unterminated cases are solver-chosen), and over the JSON value classes of the @-fields: verbatim copy to the Stderr writer, level and message of the emitted record, and no panic.",
     note="Bound: one line <= 3 buffers, two lines, a six-line panic trace, three stdout lines after the handshake, a burst of stderr before exit; buffer 16..2^20. Contracts: ReadLine chunking function, JSON value classes, Scanner 64 KiB rule, exec.Cmd.Wait closing the pipes. " + ENGINE)

# ------------------------------------------------------------------------------------------------ C16
GHOSTFS = "ghost file system and listener registry: net.Listen on a unix path adds the path; closing the rmListener removes it; os.MkdirTemp/CreateTemp create fresh unique names; os.Remove/RemoveAll delete"
EXIT = "os.Exit(n) ends every goroutine of the modelled plugin process and records the status"
prop("C16", ["prims.go", "m_print.go", "c16.go"],
     [run("serve", "harnessC16", ["refused", "serving"],
          quick={"bound": "net/rpc plugin; configured cookie key empty or not; configured and environment cookie values arbitrary strings; PLUGIN_MULTIPLEX_GRPC unset / set but empty / \"true\" / other; PLUGIN_CLIENT_CERT set or not"}),
      run("serve-world", "harnessC16world", ["refused", "serving", "no-cookie-key", "client-cert", "damaged-version-entry", "percent-in-socket-dir", "program-output-after-handshake"], files=WORLD,
          quick={"bound": "a plugin process on the world model: net/rpc or gRPC, plain or versioned plugin sets (with a version list in the environment, well-formed or with entries that are not numbers), cookie key configured or empty, cookie variable unset or an arbitrary string, PLUGIN_MULTIPLEX_GRPC unset / empty / true / other, client certificate set or not, socket directory default or one with a per cent sign in its name; checked: exit status, stdout, listener before line, field count, version, protocol, announced address accepting"})],
     [GHOSTFS, EXIT, STR, "crypto (generateCert, X509KeyPair, CertPool) opaque; os.Pipe/os.Stdout swap modelled; signal.Notify no-op"],
     ["os.Getenv/Exit/Pipe", "net.Listen", "crypto/tls", "crypto/x509", "os/signal", "net/rpc server"],
     "what go-plugin's logger writes to stderr; TLSProvider failures",
     text="Bounded symbolic model checking of the real Serve (cookie validation, protocolVersion, real serverListener_unix/rmListener over a ghost file system, AutoMTLS branch, RPCServer.Init, the printed line, the stdout swap) with the cookie value in the environment an arbitrary string: wrong/missing cookie or empty configured key/value => exit status 1, no listener, nothing on stdout; otherwise the listener exists before the first stdout write and that write is one line of exactly six fields, seven iff the mux variable is non-empty.",
     note="Bound: one plugin process per run, the environment classes listed in the evidence (cookie, multiplexing variable, client certificate, version list well-formed or damaged, socket directory with a per cent sign), one line of program output after the handshake. Listener/file system/process exit are models. " + ENGINE)

# ------------------------------------------------------------------------------------------------ C17
prop("C17", ["prims.go", "c17.go"],
     [run("env", "harnessC17", ["automtls", "no-automtls"],
          quick={"bound": "one arbitrary host environment entry K=V (K, V arbitrary strings - the solver may choose K = PLUGIN_CLIENT_CERT etc.); AutoMTLS x GRPCBrokerMultiplex x SkipHostEnv; RunnerFunc capturing cmd.Env and cmd.Stdin"}),
      run("env-world", "harnessC17world", ["cmd-launch", "runner-launch", "socket-group", "skip-host-env", "cmd-env-preset", "zero-min-port"], files=WORLD,
          quick={"bound": "composed with a real plugin: launch {exec.Cmd under the real CmdRunner, RunnerFunc} x protocol x AutoMTLS x multiplexing x UnixSocketConfig.Group set/unset x SkipHostEnv x one arbitrary host variable x (command launch) one arbitrary variable pre-set by the caller in cmd.Env; checked: cookie, port range, version list, client certificate, multiplexing flag, socket group, socket directory, stdin"}),
      run("shared-config", "harnessSharedConfig", ["first-launch", "second-launch"], files=WORLD,
          quick={"bound": "one *ClientConfig used for two launches (RunnerFunc; net/rpc or gRPC; AutoMTLS on or off): the first plugin serves only version 1 (offered through VersionedPlugins), the second only version 2 (offered through the legacy ProtocolVersion+Plugins pair); each launch: Start, Client, Dispense, call, Kill; checked per launch: negotiated version and plugin set, client-certificate variable, size of the host's trust pool"})],
     [PROC, BUFIO, CTX, STR, "effective value of a variable in the child = last duplicate in cmd.Env (os/exec dedup rule)", "generateCert opaque"],
     ["os.Environ", "generateCert", "bufio", "context"],
     "more than one ambient host variable; cmd.Env pre-set by the caller; launch by exec.Cmd",
     text="Bounded symbolic model checking of the environment construction in the real Client.Start with the host's own environment a symbolic entry K=V: for every control variable the effective value in the child's environment is what the ClientConfig dictates (including 'absent'), stdin is the host's, and with SkipHostEnv nothing originates from the host environment.",
     note="Bound: two adjacent ambient host variables with arbitrary names and values (one in the composed run); MinPort 10000 or 0; one ClientConfig over two launches. " + ENGINE)

# ------------------------------------------------------------------------------------------------ C19
prop("C19", ["prims.go", "c17.go"],
     [run("sequences", "harnessC19", ["sequence-done", "runnerfunc-fails", "runner-start-fails"],
          quick={"bound": "call sequences of length 3 over {Start, Protocol, ReattachConfig, Kill-then-Start}; the first launch: plugin prints garbage, prints a valid line, RunnerFunc returns an error, or the runner's Start returns an error; RunnerFunc invocations counted"}),
      run("concurrent", "harnessC19concurrent", ["two-starts", "two-clients", "automtls", "done"], dpor=True, files=WORLD,
          quick={"max_reversals": 1, "race": True, "bound": "host x plugin composed (net/rpc and gRPC, AutoMTLS on or off): two goroutines on one Client, each performing one of {Start, Client, Protocol+Exited+ID+ReattachConfig, Kill}; all schedules with <= 1 reversal, happens-before race detection; then Kill and another Start"})],
     [PROC, BUFIO, CTX, STR], ["as C01"],
     "more than two goroutines or more than one operation each in the concurrent run; sequences longer than the bound",
     text="Bounded symbolic model checking of the real Start/Client/Protocol/ReattachConfig/Kill over every call sequence within the length bound, with the outcome of the first start symbolic: launches (runner creations and starts) <= 1, no launch after Kill.",
     note="Bound: sequences of length 3, custom runner, four outcomes of the first launch; two concurrent operations (<= 1 reversal) with and without AutoMTLS. " + ENGINE)

# ------------------------------------------------------------------------------------------------ C15 / C14
prop("C15", ["prims.go", "c15.go"],
     [run("reattach", "harnessC15", ["nothing-listening", "reattached", "test-mode", "refused-protocol", "refused-then-kill-test-mode", "real-process"],
          quick={"bound": "something listening or not x Reattach.Protocol in {\"\", netrpc, grpc} x Test flag x three allowed lists; pid-based reattach through the real cmdrunner.ReattachFunc / CmdAttachedRunner / pidWait (modelled ticker and signal-0 probe)"}),
      run("test-mode", "harnessC15testMode", ["second-hand", "server-survives-kill", "stopped-by-context"], files=WORLD,
          quick={"bound": "an in-process test-mode Serve (net/rpc and gRPC) x histories: reattach at first hand; take ReattachConfig from the reattached client and reattach at second hand; Kill on either; reattach again; cancel the context"}),
      run("process", "harnessC15process", ["reattached", "reattach-after-death"], files=WORLD,
          quick={"bound": "a plugin process launched through exec.Cmd (net/rpc and gRPC): start, take the reattach config, reattach, dispense and call through both clients, kill via the reattached client, reattach after death"})],
     [NET, CTX, "os.FindProcess/Signal(0)/Kill modelled by a ghost process table; time.NewTicker on the symbolic clock; net.Dial succeeds iff something listens at the address",
      "composed runs: the world model of DESIGN.md section 4 (harness/w_*.go)"],
     ["net.Dial", "os.FindProcess", "os.Process.Signal/Kill", "time.Ticker", "world model"],
     "histories longer than the ones listed; custom ReattachFunc implementations other than the default",
     text="Bounded symbolic model checking of the real reattach / ReattachConfig / Kill with cmdrunner.ReattachFunc, CmdAttachedRunner and pidWait, alone and composed with the plugin's real Serve (as a process and in test mode): nothing listening => ErrProcessNotFound; a client built from a running plugin's reattach configuration (also at second hand) reaches that same instance with the same protocol and can dispense; Kill on it terminates that plugin - except in test mode, where the server keeps running and stops only when its context is cancelled.",
     note="Bound: the listed histories. Process table, dial and ticker are models. " + ENGINE)
prop("C14", WORLD,
     [run("matrix", "harnessC14matrix", ["works", "protocol-refused", "tls-mismatch", "automtls", "mux", "mux-requested-netrpc-plugin"],
          quick={"bound": "host x plugin composed: plugin protocol {net/rpc, gRPC} x AllowedProtocols {default, both, gRPC only} x transport security {none, AutoMTLS, static TLS both sides, host only, plugin only, host AutoMTLS with a plugin that ignores PLUGIN_CLIENT_CERT} x launch {RunnerFunc, exec.Cmd} x multiplexing {off, requested by the host (gRPC plugin, or a net/rpc plugin that ignores it)}; healthy plugin; Start, Client, Dispense (known and unknown name), call, Ping, Kill"}),
      run("mux-unsupported", "harnessC14oldPlugin", ["mux-unsupported"], quick={"bound": "a gRPC plugin announcing six fields, host requesting multiplexing; both launch methods"}),
      run("legacy-lines", "harnessC14legacyLines", ["legacy-accepted", "legacy-refused"], quick={"bound": "scripted plugins announcing 4-field, 5-field net/rpc and 5-field gRPC lines x three allowed lists x both launch methods"}),
      run("reattach-allowed", "harnessC15", ["reattached", "refused-protocol"], files=["prims.go", "c15.go"],
          quick={"bound": "reattach half of the matrix: Reattach.Protocol in {\"\", netrpc, grpc} x AllowedProtocols in three lists x Test flag"}),
      run("shared-config", "harnessSharedConfig", ["first-launch", "second-launch"], files=WORLD,
          quick={"bound": "one *ClientConfig used for two launches (RunnerFunc; net/rpc or gRPC; AutoMTLS on or off): the first plugin serves only version 1 (offered through VersionedPlugins), the second only version 2 (offered through the legacy ProtocolVersion+Plugins pair); each launch: Start, Client, Dispense, call, Kill; checked per launch: negotiated version and plugin set, client-certificate variable, size of the host's trust pool"}),
      run("brokered-callbacks", "harnessC18world", ["host-serves", "plugin-serves", "automtls"], files=WORLD,
          quick={"params": {"trace": 0, "as": 14}, "bound": "C18's life-cycle run read for C14: brokered servers on the host (called back by the plugin) and on the plugin (called by the host) over gRPC, with and without multiplexing, plain or AutoMTLS, both launch methods"})],
     WORLD_ASSUME, WORLD_STUBS,
     "brokered callbacks and large responses inside the matrix run (brokers are C06-C08's subject); SecureConfig (C13); reattach to a composed plugin (C15)",
     text="Bounded symbolic model checking of the host's real Start/Client/Dispense/Ping/Kill composed with the plugin's real Serve in one run over the cross product of protocol, allowed list, transport security, launch method and multiplexing: compatible configurations work end to end, an announced protocol outside the allowed list is refused at start and the plugin terminated (also for legacy handshake lines and for reattach), a multiplexing request to a plugin that does not advertise it fails with the dedicated error, a transport-security mismatch surfaces as an error on first use, unknown plugin names are errors; never a hang or a panic.",
     note="Bound: one healthy plugin per run; the full configuration cross product listed in the evidence. Transport security is the crypto/tls contract model (certificates as identities). " + ENGINE)

# ------------------------------------------------------------------------------------------------ C03
prop("C03", WORLD,
     [run("crash-points", "harnessC03", ["started", "start-failed", "client-failed", "crash-before-or-inside-call", "broker-ops-returned", "exit-observed", "killed", "with-latency"],
          quick={"bound": "host x plugin composed, net/rpc, gRPC and gRPC+mux, both launch methods; the plugin is killed (no deferred code runs) at a symbolic instant tDie in [0, 100 s] and needs a symbolic boot time <= 5 s before its line; host history on the symbolic clock: Start @0, Client @10 s, Dispense @20 s, a 3 s call @30 s, broker accept and dial @40 s, Ping @60 s, exit bookkeeping @70 s, Kill @80 s - the solver places tDie in every gap, inside the call and at every tie; optionally every request takes a symbolic one-way latency <= 100 ms, so that the crash also falls inside multi-step operations (between a Dispense's RPC and its broker dial, inside Kill's shutdown request)"}),
      run("mid-line", "harnessC03midline", ["died-mid-line"], files=WORLD,
          quick={"bound": "a plugin that exits while writing its handshake line (inside the protocol field, right after the address field, or before the multiplexing field the host asked for), both launch methods; then a second Start, Protocol, ReattachConfig, Client, Kill on the same client"})],
     WORLD_ASSUME + ["an in-flight net/rpc or gRPC call fails when its connection dies (library contract, part of the model)"], WORLD_STUBS,
     "crash points inside library internals (a half-written frame); a partial handshake line (covered by C01's EOF/garbage lines); more than one crash per history",
     text="Bounded symbolic model checking of the host's real Start/Client/Dispense/call/broker Accept+Dial/Ping/Exited/Kill composed with the plugin's real Serve, with the plugin's death a symbolic instant anywhere in the history: every operation returns within its bound on the symbolic clock, none panics, operations that needed a dead plugin return errors (and fail only when the plugin is dead), the client reports the exit and the context handed to gRPC plugin clients is cancelled.",
     note="Bound: one crash per history; the fixed operation schedule above; three protocol variants x two launch methods. " + ENGINE)

# ------------------------------------------------------------------------------------------------ C12
TLSC = "crypto/tls contract (trusted, not checked): a server presents Certificates[0]; with ClientAuth = RequireAndVerifyClientCert it accepts a client iff the client presents a certificate contained in ClientCAs (weaker ClientAuth values accept more, as documented); a client accepts a server iff InsecureSkipVerify or the server certificate is in RootCAs; a TLS end and a plaintext end never connect. Certificates are identities, pools are sets of identities."
prop("C12", ["prims.go", "m_print.go", "c12.go"],
     [run("serve-wiring", "harnessC12serve", ["automtls", "plain", "damaged-cert"],
          quick={"bound": "plugin side, net/rpc: PLUGIN_CLIENT_CERT unset, a parsable certificate, or set but not a parsable certificate; the tls.Config reaching tls.NewListener compared field by field with the reference (a damaged certificate must fail closed: required client auth against an empty pool)"}),
      run("damaged-cert", "harnessC12damagedCert", ["damaged-cert-done", "attacked", "plugin-ignores-automtls"], files=WORLD,
          quick={"bound": "host x plugin composed under AutoMTLS, net/rpc and gRPC, both launch methods, with a launcher that damages PLUGIN_CLIENT_CERT on its way to the plugin (every listener the plugin opened is attacked with the three intruder credential classes), or drops it (the plugin serves in clear text: the host must refuse to talk to it)"}),
      run("intruders", "harnessC12", ["legit-works", "brokered-listeners", "intruders-refused"], files=WORLD,
          quick={"bound": "host x plugin composed under AutoMTLS, net/rpc and gRPC, both launch methods; listeners attacked: the plugin's main listener, a plugin-side and a host-side brokered gRPC listener; intruder credential classes: plaintext, TLS without certificate, TLS with a fresh self-signed certificate"}),
      run("impostor", "harnessC12impostor", ["impostor-refused"], files=WORLD,
          quick={"bound": "a scripted net/rpc plugin that announces one certificate on its handshake line and serves with another"}),
      run("shared-config", "harnessSharedConfig", ["first-launch", "second-launch"], files=WORLD,
          quick={"bound": "one *ClientConfig used for two launches (RunnerFunc; net/rpc or gRPC; AutoMTLS on or off): the first plugin serves only version 1 (offered through VersionedPlugins), the second only version 2 (offered through the legacy ProtocolVersion+Plugins pair); each launch: Start, Client, Dispense, call, Kill; checked per launch: negotiated version and plugin set, client-certificate variable, size of the host's trust pool"})],
     [TLSC, "generateCert, X509KeyPair, AppendCertsFromPEM, base64 and x509 parsing preserve certificate identity"] + WORLD_ASSUME,
     WORLD_STUBS,
     "everything inside crypto/tls (the contract above is the trusted base); gRPC+mux brokered listeners; an intruder holding the right CA name with another key is the same class as 'another certificate' in the identity model",
     text="Bounded symbolic model checking of (a) the TLS wiring in the real Serve against a field-by-field reference configuration and (b) the composed host and plugin under AutoMTLS with an intruder process attacking every listener go-plugin opened (main, plugin-side brokered, host-side brokered) with each credential class, and an impostor plugin: with the crypto/tls contract as the trusted base, no intruder gets a request served and the host refuses the impostor. What go-plugin contributes - which tls.Config reaches which listener and dial - is decided on the real code; enforcement is crypto/tls's.",
     note="Trusted base: the crypto/tls contract stated in the evidence (certificates as identities). Bound: one intruder attempt per listener and credential class. " + ENGINE)

# ------------------------------------------------------------------------------------------------ C18
GRPCSEAM = "gRPC seam at the generated-code interfaces: Register*Server records the real implementation; grpc.Server.Serve accepts from its listener until stopped; Stop/GracefulStop close the listeners being served (documented); a unary call runs the registered real method in the peer process"
YAMUX = "yamux model: a session is a pair of FIFO queues of streams; Open enqueues for the peer's Accept; Accept fails once the session is closed; in-order, loss-free (yamux's correctness is assumed)"
prop("C18", ["prims.go", "m_print.go", "c18.go"],
     [run("lifecycle", "harnessC18", ["mux", "no-mux"],
          quick={"bound": "plugin side, gRPC, multiplexing on/off, no brokered listeners: a whole life cycle Serve -> host connects -> controller Shutdown -> Serve returns, against the ghost file system"}),
      run("shutdown-order", "harnessC18shutdownOrder", ["brokered-server-established", "graceful"], dpor=True, files=WORLD,
          quick={"max_reversals": 1, "bound": "gRPC without multiplexing, exec.Cmd launch, one brokered server established on the plugin and used, then Kill: all schedules with <= 1 reversal; the plugin process's death is an operation that conflicts with everything its goroutines still had to do to the file system"},
          thorough={"max_reversals": 2, "max_wall_s": 1500, "bound": "as quick with <= 2 reversals (9 817 schedules, 25 s when measured)"}),
      run("world", "harnessC18world", ["dispensed", "host-serves", "plugin-serves", "two-plugin-servers", "host-listener-left-open", "rpc-callback", "closed-before-kill", "two-plugin-servers-one-id", "plugin-server-factory-in-progress", "other-namespace", "unix-socket-config", "automtls", "clean"], files=WORLD,
          quick={"params": {"trace": 0, "as": 18}, "bound": "host x plugin composed, net/rpc, gRPC and gRPC+mux, plain or AutoMTLS (gRPC), both launch methods (a custom runner optionally with the plugin in another file-system namespace - only the runner's socket directory shared - and UnixSocketConfig given or nil); history: dispense and call; optionally a brokered server on the host dialled and called by the plugin; optionally one or two brokered servers on the plugin (on two IDs, or one after the other on the same ID with the first still serving), each dialled and called by the host; optionally a brokered server on the plugin whose factory is still running when the shutdown arrives; optionally a host-side brokered listener still open at Kill (custom runner); then either Kill, or the protocol client closed first, three seconds (the plugin exits and the exit is recorded) and then Kill; then six seconds"})],
     [GHOSTFS, GRPCSEAM, YAMUX, EXIT] + WORLD_ASSUME,
     WORLD_STUBS,
     "histories with more than one brokered connection per direction; stdio traffic; goroutines inside gRPC and yamux (delegated)",
     text="Bounded symbolic model checking of whole life cycles on the real code against a ghost file system and a goroutine census: plugin side alone (Serve / GRPCServer / muxer / rmListener) and host and plugin composed with histories of dispenses and brokered connections in both directions: after Kill and a graceful exit no socket file or temporary directory created by go-plugin is left on either side, and no goroutine go-plugin started for the client is still alive in the host six seconds later.",
     note="Bound: the listed histories (two brokered servers per direction at most, one ID reused once); canonical schedule. " + ENGINE)

# ------------------------------------------------------------------------------------------------ C04
prop("C04", ["prims.go", "c04.go"],
     [run("kill-seam", "harnessC04", ["connected", "forced", "graceful", "kill-returned"],
          quick={"bound": "gRPC over the generated-client seam, RunnerFunc launch, connected client, one Kill; plugin behaviour in {cooperative after symbolic delay d, answers but never exits, frozen}"}),
      run("kill-world", "harnessC04world", ["connected", "graceful", "forced", "already-dead", "repeated", "overlapping-kill", "client-failed-before-kill", "kill-before-start", "slow-shutdown-request"], files=WORLD,
          quick={"bound": "host x plugin composed, net/rpc and gRPC, both launch methods; plugin shutdown behaviour in {exits at once, exits after a symbolic clean-up time d <= 10 s, acknowledges but never exits, frozen (SIGSTOP), already crashed}; call pattern: one Kill, a repeated Kill, and a second Kill from another goroutine at a symbolic instant in [first Kill, +6 s]; also the history Start, plugin freezes or crashes, Client() (fails for net/rpc), Kill; each history optionally preceded by a Kill before anything was started; for cooperative plugins optionally a shutdown request that takes a symbolic time <= 1 s to reach the plugin"}),
      run("cleanup-clients", "harnessC04cleanup", ["cleaned-up"], files=WORLD,
          quick={"bound": "CleanupClients over two managed clients (protocols free): the second healthy, ignoring the request, or never started"}),
      run("kill-after-failed-start", "harnessC05killAfter", ["start-failed", "kill-later", "more-stdout-after-the-line"], files=WORLD,
          quick={"bound": "C05's kill-after run read for C04: scripted plugins whose handshake is refused (five kinds of line, followed or not by more stdout output), then Kill at once or three seconds later: Kill returns (a hang is reported), the process is dead"}),
      run("never-started", "harnessC04neverStarted", ["launch-failed", "concurrent-kill", "killed"], files=WORLD,
          quick={"bound": "the launch itself fails: fork/exec fails under the real CmdRunner (cmd.Process stays nil), the custom runner's Start fails, or RunnerFunc returns an error; reached through Start or Client; then Kill from two goroutines at once, two more Kills, CleanupClients"})],
     [PROC, BUFIO, CTX, GRPCSEAM, "a unary gRPC call returns when answered, when its context is done, or with Unavailable when the connection is dead - and blocks otherwise", "yamux keep-alive: a net/rpc call to a peer that stopped answering fails after at most 40 s (default yamux configuration)"] + WORLD_ASSUME,
     WORLD_STUBS,
     "reattached clients (C15); more than two overlapping Kill calls; schedules of overlapping Kills other than those induced by their start instants (canonical scheduler with symbolic time)",
     text="Bounded symbolic model checking of the real Kill / CleanupClients / Client / RPCClient.Close / GRPCClient.Close / controller Shutdown / Control.Quit / CmdRunner over the plugin's shutdown behaviour with symbolic delays, for both protocols and launch methods and for single, repeated and overlapping calls: Kill returns within a bound on the symbolic clock; afterwards the process is dead and reported exited; a plugin that exits inside the grace period is not force-killed, one that does not is; no panic.",
     note="Bound: one plugin per client, the behaviour classes and call patterns listed in the evidence. Overlap is explored through the symbolic start instant of the second Kill. " + ENGINE)

# ------------------------------------------------------------------------------------------------ C09
prop("C09", ["prims.go", "c09a.go"],
     [run("mux", "harnessC09a", ["accept-matched", "accept-timed-out", "probe-done", "stream-dropped-before-id", "retry-of-timed-out-accept", "dial-inside-window"], dpor=True,
          quick={"max_reversals": 1, "bound": "MuxBroker: optionally an inbound stream dropped by its peer before the ID was written, <= 2 inbound dials with IDs x1, x2 NOT assumed distinct at symbolic instants t1 <= t2, <= 1 local Accept(a) at tA, then a matched pair after every timer expired, on a fresh ID or on the ID whose Accept timed out; symbolic clock (ties explored), all schedules with <= 1 reversal; every inbound stream is accepted or closed by the broker"},
          thorough={"max_reversals": 2, "max_wall_s": 2700, "bound": "as quick with <= 2 reversals (about 100 000 schedules, 7-9 min when measured)"}),
      run("grpc", "harnessC09grpc", ["history-done", "lonely-accept", "fresh-pair", "retry-of-timed-out-id", "closed"], files=["prims.go", "c07.go"],
          quick={"bound": "GRPCBroker without multiplexing, real stream pumps: <= 2 Dial calls nobody accepts (IDs not assumed distinct) and <= 1 Accept nobody dials, at symbolic instants; then a routed pair (accept, symbolic gap <= 4 s, dial) on a fresh ID or on the ID whose dial timed out earlier; then Close of both brokers", "params": {"as_c07": 0}}),
      run("grpc-mux", "harnessC09mux", ["history-done", "fresh-pair", "closed"], files=["prims.go", "c08.go"],
          quick={"bound": "GRPCBroker with multiplexing, both real muxers: <= 2 dials (knocks) nobody accepts, IDs not assumed distinct, symbolic instants; then a fresh pair; then Close of both brokers"})],
     [YAMUX, "encoding/binary.Read/Write of a uint32 moves one message on a stream", GRPCSEAM, GHOSTFS],
     ["yamux.Session/Stream", "encoding/binary", "grpc.Dial", "net.Listen", "broker stream"],
     "schedules other than canonical; histories longer than the bound; a peer closing mid-negotiation",
     text="Bounded symbolic model checking of the real MuxBroker (Run/Accept/getStream/timeoutWait) and of the real GRPCBroker with and without multiplexing (Run/Dial/knock/muxDial/Accept/timeoutWait, both muxers, the real stream pumps) under cooperative goroutines and a symbolic clock: IDs, arrival instants and the accept instant are solver-chosen (duplicate IDs and the expiry-instant tie are satisfying assignments); every unmatched call returns within the pending window, after the history a fresh pair still succeeds (no goroutine blocked for ever), and closing the brokers ends their goroutines.",
     note="Bound: history of <= 2 unmatched dials + <= 1 unmatched accept (+ one stream dropped before its ID) per broker kind, then a pair on a fresh or a retried ID; MuxBroker run under DPOR (1 reversal quick, 2 thorough), gRPC runs on the canonical schedule. " + ENGINE)

# ------------------------------------------------------------------------------------------------ C06 / C07 / C08 / C11 / C20
NETRPC = "net/rpc model: Call(\"Svc.Method\") runs the real registered receiver method in a goroutine of the peer; fails when the connection is closed"
DEADLINES = "yamux stream deadlines: SetDeadline/SetReadDeadline/SetWriteDeadline recorded per stream on the symbolic clock (time.Now, Time.Add/Sub/IsZero/Before/After on it); a read, write or call after a passed deadline fails (every write is taken for one that exhausts the send window); a blocked read is not woken by its deadline"
prop("C06", ["prims.go", "c06.go"],
     [run("routing", "harnessC06", ["dispensed", "routed"], dpor=True,
          quick={"max_reversals": 2, "bound": "two Dispense calls, a further call on the first dispensed client at a symbolic instant 6-9 s later (any deadline Dial left on the stream has passed), + two symbolic distinct IDs accepted on the host and dialled from the plugin within a symbolic gap < 5 s in either order, data written on the dialled end 6 s after that; all schedules with <= 2 reversals"},
          thorough={"max_reversals": 3, "max_wall_s": 3000, "bound": "as quick with <= 3 reversals (about 281 000 schedules, 24 M solver queries, 15-26 min on 16 cores when measured)"}),
      run("nextid", "harnessC20nextid", ["ids-distinct"], dpor=True, files=["prims.go", "c20.go"], quick={"max_reversals": 2, "params": {"as": 6}, "bound": "two goroutines each taking two IDs from both broker kinds, counter value symbolic (wrap-around included); all schedules with <= 2 reversals"}),
      run("mux-history", "harnessC09a", ["accept-matched", "dial-inside-window", "probe-done"], files=["prims.go", "c09a.go"],
          quick={"bound": "C09's MuxBroker history run read for C06 (canonical schedule): with another dial pending on a different ID, an Accept(a) and a dial for a that arrives within four seconds of it are matched"}),
      run("after-timeout", "harnessC06afterTimeout", ["lonely-on-host", "lonely-on-plugin", "timed-out", "abandoned-dial", "routed"], dpor=True,
          quick={"max_reversals": 1, "bound": "history prefix: one Dispense, then an Accept(id0) nobody dials on the host or the plugin broker (times out), optionally a stream opened by either end and dropped before its ID was written; afterwards a second Dispense and one symbolic ID accepted/dialled in either direction, either order, symbolic gap < 5 s; symbolic clock, all schedules with <= 1 reversal"})],
     [YAMUX, NETRPC, DEADLINES], ["yamux", "net/rpc", "encoding/binary", "time.Now"],
     "byte transport on a stream (yamux contract); 3 IDs; more than 1 reversal in quick",
     text="Bounded symbolic model checking of the real MuxBroker (Accept/Dial/Run/NextId/AcceptAndServe), dispenseServer.Dispense, RPCClient.Dispense and serve over paired-session yamux and net/rpc models, all schedules up to the reversal bound: Accept(n) returns the far end of the stream Dial(n) returned, and each Dispense reaches the server object created for that dispense.",
     note="Bound: 2 IDs, 2 dispenses, DPOR with 2 reversals (a check-then-act atomicity bug in getStream needs two); histories with a timed-out accept, an abandoned dial, another dial pending. " + ENGINE)
prop("C07", ["prims.go", "c07.go"],
     [run("routing", "harnessC07", ["accept-first", "dial-first", "routed"], dpor=True,
          quick={"max_reversals": 1, "bound": "ID a accepted on the plugin and dialled from the host, ID b the other way round; symbolic distinct IDs; symbolic gap < 5 s either order; identity and namespace-translating runner; <= 1 reversal"},
          thorough={"max_reversals": 2, "max_wall_s": 1500, "bound": "as quick with <= 2 reversals"}),
      run("multi", "harnessC07multi", ["accept-first", "dial-first", "routed"], dpor=True,
          quick={"max_reversals": 1, "bound": "three IDs outstanding at once, two of them in the same direction (both accepted on the plugin and dialled from the host), all accepts before all dials or the reverse, symbolic distinct IDs and gap; <= 1 reversal"}),
      run("same-instant", "harnessC07same", ["host-accepts", "plugin-accepts", "routed"], dpor=True,
          quick={"max_reversals": 2, "bound": "one symbolic ID accepted and dialled at the same instant (the connection info arrives while the Dial looks its pending entry up), plugin accepts / host dials or the reverse, real stream pumps; all schedules with <= 2 reversals"},
          thorough={"max_reversals": 3, "max_wall_s": 1500, "bound": "as quick with <= 3 reversals"}),
run("nextid", "harnessC20nextid", ["ids-distinct"], dpor=True, files=["prims.go", "c20.go"], quick={"max_reversals": 2, "params": {"as": 7}, "bound": "two goroutines each taking two IDs from both broker kinds, counter value symbolic (wrap-around included); all schedules with <= 2 reversals"}),
      run("two-dials", "harnessC07twoDials", ["routed"], dpor=True, files=["prims.go", "c07.go"],
          quick={"max_reversals": 2, "race": True, "bound": "two symbolic IDs accepted on the plugin and then dialled from the host by two goroutines at once (two connections being set up in one process), each dialled connection then used once; all schedules with <= 2 reversals; happens-before race detection over what go-plugin touches while dialling (append into a shared backing array is modelled)"}),
      run("composed-callbacks", "harnessC18world", ["host-serves", "plugin-serves", "other-namespace", "unix-socket-config"], files=WORLD,
          quick={"params": {"trace": 0, "as": 7}, "bound": "C18's life-cycle run read for C07: brokered servers on the host (dialled and called by the plugin) and on the plugin (dialled and called by the host), both launch methods, a custom runner optionally with the plugin in another file-system namespace where only the runner's socket directory is shared, UnixSocketConfig given or nil"}),
      run("retry-after-timeout", "harnessC09grpc", ["history-done", "fresh-pair", "retry-of-timed-out-id"],
          quick={"params": {"as_c07": 1}, "bound": "C09's history run read as a routing claim: <= 2 dials nobody accepts (they time out), optionally an accept nobody dials, then accept - symbolic gap <= 4 s - dial on a fresh ID or on the ID whose dial timed out; canonical schedule, symbolic clock"})],
     [GRPCSEAM, GHOSTFS, "broker stream = FIFO pair; Send copies the message"], ["grpc", "net.Listen", "generated broker stream"],
     "TLS on brokered connections (C12); more than 3 IDs; the transport under gRPC",
     text="Bounded symbolic model checking of the real GRPCBroker (non-mux Accept, DialWithOptions, Run, getClientStream, timeoutWait), the real gRPCBrokerServer/gRPCBrokerClientImpl pumps and dialGRPCConn: the connection dialled for ID n reaches the listener created by Accept(n), in both directions and either order.",
     note="Bound: 2-3 IDs, DPOR with 1-2 reversals; one ID at the same instant; two dials at once with race detection; retry of a timed-out ID; composed callbacks across file-system namespaces. " + ENGINE)
prop("C08", ["prims.go", "c08.go"],
     [run("mux", "harnessC08", ["established"], dpor=True,
          quick={"max_reversals": 2, "bound": "one establishment, plugin accepts / host dials, accept-first and dial-first, all schedules with <= 2 reversals"},
          thorough={"max_reversals": 3, "bound": "as quick with <= 3 reversals"}),
      run("both-directions", "harnessC08seq", ["established", "host-accepts", "plugin-accepts", "dial-first", "accept-first"], dpor=True,
          quick={"max_reversals": 2, "params": {"k": 1}, "bound": "one establishment in either direction (plugin accepts / host dials, or host accepts / plugin dials), accept-first or dial-first, symbolic gap and ID; all schedules with <= 2 reversals"},
          thorough={"max_reversals": 1, "params": {"k": 2}, "max_wall_s": 1500, "bound": "two sequential establishments, each in either direction and either order, distinct symbolic IDs; all schedules with <= 1 reversal"}),
      run("second-connection", "harnessC08second", ["both-established", "host-accepts", "plugin-accepts", "dial-first", "accept-first"], dpor=True,
          quick={"max_reversals": 1, "bound": "two establishments in the SAME direction (plugin accepts both, or host accepts both) on distinct symbolic IDs, each accept-first or dial-first with a symbolic gap < 5 s; the first ID's listener keeps being served (Accept in a loop, as a gRPC server does) while the second is established; all schedules with <= 1 reversal"}),
      run("same-id-both-ways", "harnessC08sameID", ["established", "host-accepts-first", "plugin-accepts-first", "dial-first", "accept-first"],
          quick={"bound": "two establishments with ONE symbolic ID, the second in the opposite direction and starting a symbolic pause in [0, 10 s] after the first completed (timers armed by the first still running), each accept-first or dial-first with a symbolic gap < 5 s; canonical schedule, symbolic clock"},
          thorough={"dpor": True, "max_reversals": 1, "max_wall_s": 1500, "bound": "as quick, and all schedules with <= 1 reversal (6 856 schedules, 100 s when measured)"})],
     [YAMUX, "the two brokers talk through an in-model FIFO streamer pair"], ["yamux", "broker stream"],
     "more than two establishments; bytes flowing on earlier connections (their streams staying open is checked); more reversals than the bound",
     text="Bounded symbolic model checking of the real mux branch of GRPCBroker (Accept, listenForKnocks, knock, muxDial, Run) with both real grpcmux muxers and blocked listeners over a yamux model, all schedules of the goroutines of one establishment up to the reversal bound: the stream dialled for n is delivered by the listener returned by Accept(n), the dial succeeds, and the main accept loop and session keep working.",
     note="Bound: one establishment under DPOR (2 reversals quick, 3 thorough); two sequential establishments (same direction with the first listener still served; one ID in both directions) as documented - overlapping establishments are outside the property. " + ENGINE)
prop("C11", ["prims.go", "c11.go"],
     [run("grpc-stdio", "harnessC11", ["delivered"], dpor=True,
          quick={"max_reversals": 2, "race": True, "bound": "gRPC: two stdout chunks and one stderr chunk, each an opaque byte view of symbolic length 1..1024; all schedules with <= 2 reversals; happens-before race detection on the chunk buffer"},
          thorough={"max_reversals": 3, "race": True, "max_wall_s": 1500, "bound": "as quick with <= 3 reversals"}),
      run("one-stream-closed", "harnessC11eof", ["stderr-closed", "stdout-closed", "delivered"],
          quick={"bound": "gRPC seam: the plugin writes one chunk to one stream and closes it (EOF), writes a chunk to the other and two seconds later another; canonical schedule"}),
      run("large-write", "harnessC11large", ["one-chunk", "several-chunks", "beyond-bufio-buffer"],
          quick={"bound": "gRPC seam: one stdout write of symbolic length 1..5000 (either side of the 1 KiB chunk and of bufio's 4 KiB buffer) followed by a short one; bufio.Reader modelled with its read-ahead buffer; canonical schedule"}),
      run("composed", "harnessC11world", ["delivered", "written-before-attach", "late-output"], files=WORLD,
          quick={"bound": "host x plugin composed, net/rpc, gRPC and gRPC+mux, both launch methods: the plugin writes two stdout chunks and one stderr chunk (arbitrary contents, symbolic length 1..1024) to its process streams after serving began, before or after the host attached, and one more stdout chunk thirty seconds later; what SyncStdout/SyncStderr received is compared with what was written"}),
      run("second-host", "harnessC11secondHost", ["written-while-detached", "delivered-to-second-host"], files=WORLD,
          quick={"bound": "gRPC plugin launched through exec.Cmd: a first host attaches and receives a chunk; its connection goes away with the plugin left running; the plugin writes a stdout and a stderr chunk while nobody is attached; a second host reattaches (real ReattachConfig / reattach) and the plugin writes again; chunks of symbolic content, length 1..1024; canonical schedule"})],
     ["bufio.Reader.Read returns 1..len(p) bytes (a view over the source's next bytes)", "stream model whose Send reads the message bytes at call time (marshalling)"] + WORLD_ASSUME, ["bufio.Reader.Read", "generated stdio stream"] + WORLD_STUBS,
     "> 3 chunks; chunks larger than 1 KiB on the composed run; io.Copy and the transports (delegated)",
     text="Bounded symbolic model checking of the real newGRPCStdioServer, both copyChan goroutines (writing into the real [1024]byte array), StreamStdio and grpcStdioClient.Run: every chunk arrives once, unchanged, in order, on the right writer; plus happens-before race detection on the buffer (which is what exposes an aliased/hoisted buffer).",
     note="Bound: 2+1 chunks of symbolic length <= 1024 under DPOR (2 reversals); one write of up to 5000 bytes; one stream closed; a second host. " + ENGINE)
prop("C20", ["prims.go", "c20.go"],
     [run("stop-stop", "harnessC20stop", ["both-stopped"], dpor=True, quick={"max_reversals": 2, "race": True, "bound": "two goroutines calling GRPCServer.Stop"}),
      run("close-close", "harnessC20close", ["both-closed"], dpor=True, quick={"max_reversals": 2, "race": True, "bound": "two goroutines calling GRPCBroker.Close (sync.Once control)"}),
      run("nextid", "harnessC20nextid", ["ids-distinct"], dpor=True, quick={"max_reversals": 2, "race": True, "params": {"as": 20}, "bound": "two goroutines each taking two IDs from both broker kinds, counter value symbolic (wrap-around included)"}),
      run("client-methods", "harnessC19concurrent", ["two-starts", "two-clients", "done"], dpor=True, files=WORLD,
          quick={"max_reversals": 1, "race": True, "bound": "host x plugin composed (net/rpc and gRPC, AutoMTLS on or off): two goroutines on one Client, each performing one of {Start, Client, Protocol+Exited+ID+ReattachConfig, Kill}; all schedules with <= 1 reversal; happens-before race detection over everything go-plugin touches on both sides"}),
      run("serve-shutdown", "harnessC20serveShutdown", ["host-side", "plugin-side", "after-shutdown", "shut-down"], dpor=True, files=WORLD,
          quick={"max_reversals": 1, "race": True, "bound": "host x plugin composed over gRPC, multiplexing on and off: a brokered server being started (AcceptAndServe on the host broker, or on the plugin broker inside the plugin) while the client is killed, and on the host another AcceptAndServe after the shutdown returned; all schedules with <= 1 reversal, happens-before race detection"},
          thorough={"max_reversals": 2, "race": True, "max_wall_s": 1500, "bound": "as quick with <= 2 reversals (50 535 schedules, 91 s when measured)"}),
      run("two-dials", "harnessC07twoDials", ["routed"], dpor=True, files=["prims.go", "c07.go"],
          quick={"max_reversals": 2, "race": True, "bound": "two symbolic IDs accepted on the plugin and then dialled from the host by two goroutines at once (two connections being set up in one process), each dialled connection then used once; all schedules with <= 2 reversals; happens-before race detection over what go-plugin touches while dialling (append into a shared backing array is modelled)"}),
      run("mux-listener-close", "harnessC20muxListenerClose", ["host-side", "plugin-side", "closed-twice"], dpor=True, files=["prims.go", "c08.go"],
          quick={"max_reversals": 2, "race": True, "bound": "a multiplexed brokered listener (host side or plugin side) closed from two goroutines at once and once more afterwards; all schedules with <= 2 reversals, happens-before race detection"}),
      run("accept-close", "harnessC20brokerClose", ["host-side", "plugin-side", "both-returned"], dpor=True, files=["prims.go", "c07.go"],
          quick={"max_reversals": 3, "race": True, "bound": "a GRPCBroker.Accept (sending through the real stream pump) racing with Close of the same broker, host side and plugin side, all schedules with <= 3 reversals"},
          thorough={"max_reversals": 4, "race": True, "max_wall_s": 1500, "bound": "as quick with <= 4 reversals"})],
     [GRPCSEAM, "broker stream = FIFO pair; Send copies the message"], ["grpc.Server", "broker stream"],
     "races inside gRPC/yamux; schedules needing more reversals than the bound; concurrent Client methods beyond overlapping Kill (C04) and broker Accept/Dial mixes beyond C06-C08's DPOR runs",
     text="Bounded exploration of all schedules (stateless DPOR over synchronisation operations) of small groups of goroutines on the real GRPCServer.Stop, GRPCBroker.Close/Accept/NextId, MuxBroker.NextId and the real broker stream pumps, with vector-clock happens-before race detection restricted to accesses made from go-plugin source lines: no data race, no panic (double close, send on a closed channel), no hang, IDs distinct.",
     note="Bound: 2 goroutines per scenario, 2-3 reversals. A race candidate is an unordered pair of accesses by happens-before. " + ENGINE)

PENDING = "check not yet registered in this build session (harness exists in prototype form and is being ported); will be claimed once it has run clean on the unchanged tree"
for i in range(1, 21):
    id = "C%02d" % i
    if id not in CLAIMS:
        CLAIMS[id] = {"claimed": False, "reason": PENDING}

os.makedirs(os.path.join(HERE, "spec"), exist_ok=True)
for id, s in SPECS.items():
    json.dump(s, open(os.path.join(HERE, "spec", id + ".json"), "w"), indent=1)
json.dump(CLAIMS, open(os.path.join(HERE, "claims.json"), "w"), indent=1)
print("specs:", sorted(SPECS))
