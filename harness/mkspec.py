#!/usr/bin/env python3
"""Single source for harness/spec/<id>.json (what each check runs, with which bound) and harness/claims.json
(what MANIFEST.json claims). Run: python3 harness/mkspec.py && python3 tools_manifest.py"""
import json, os
HERE = os.path.dirname(os.path.abspath(__file__))
SPECS, CLAIMS = {}, {}


def run(name, entry, covers, quick=None, thorough=None, dpor=False, **kw):
    t = {}
    if quick is not None:
        t["quick"] = quick
    if thorough is not None:
        t["thorough"] = thorough
    r = {"name": name, "entry": entry, "covers": covers, "tiers": t}
    if dpor:
        r["dpor"] = True
    r.update(kw)
    return r


def prop(id, files, runs, assumptions, stubs, outside, text=None, note=None, reason=None, thorough=True):
    SPECS[id] = {"property": id, "files": files, "runs": runs, "assumptions": assumptions, "stubs": stubs, "outside": outside}
    if text:
        CLAIMS[id] = {"claimed": True, "text": text, "note": note, "thorough": thorough}
    else:
        CLAIMS[id] = {"claimed": False, "reason": reason}


PROC = "process model: a scripted runner.Runner (RunnerFunc) whose stdout delivers one arbitrary line at a symbolic instant, or EOF while alive, or nothing, or dies before output; Kill makes it dead; Wait returns when dead"
BUFIO = "bufio.Scanner/bufio.Reader replaced by contract models (one line per Scan; ReadLine blocks until the process is dead, then EOF)"
CTX = "context.WithCancel/WithTimeout replaced by a channel-based model with the same Done/Err contract"
STR = "strings are concatenations of atoms of an uninterpreted sort with attribute functions (len, atoi_ok/atoi_val, equality with literals, b64/x509/resolve predicates); every axiom is a true fact about Go strings; a first line is quantified as its unique decomposition lead-ws ++ f0|f1|...|f(n-1) ++ trail-ws with n <= 8"
NET = "net.ResolveTCPAddr is nondeterministic in its address argument (success returns a non-nil *TCPAddr, failure returns (nil *TCPAddr, err)); net.ResolveUnixAddr(\"unix\", x) never fails"
CRYPTO = "base64 decoding and x509 parsing are uninterpreted predicates of the field (with realisability facts); CertPool is opaque"
ENGINE = "Trusted: z3 4.8.12; the SSA interpreter and the environment models of DESIGN.md section 4 (each listed in the evidence file)."

# ------------------------------------------------------------------------------------------------ C01 / C05
C01_BOUND = "first stdout line = any byte string with <= 8 '|'-separated fields of unbounded length; process behaviour in {line at symbolic instant, EOF while alive, silent, dies before output}; AllowedProtocols in {nil,[netrpc],[grpc],[netrpc,grpc]}; TLSConfig nil/set; GRPCBrokerMultiplex on/off; one offered version (symbolic, >= 0); RunnerFunc launch"
prop("C01", ["prims.go", "c01.go"],
     [run("start", "harnessC01", ["accepted", "rejected"], quick={"bound": C01_BOUND})],
     [PROC, BUFIO, CTX, STR, NET, CRYPTO, "StartTimeout = 60 s on the symbolic clock"],
     ["bufio.Scanner", "bufio.Reader", "context", "os.Environ/MkdirTemp/RemoveAll", "net.Resolve*", "encoding/base64", "crypto/x509", "hclog.Logger (no-op)"],
     "a second stdout line; more than 8 fields (the code reads indices <= 6); what the real resolver does with particular addresses; launch by exec.Cmd",
     text="Bounded symbolic model checking of the whole real Client.Start (option checks, environment construction, deferred kill/re-panic, its goroutines, the select, the parser, checkProtoVersion, loadServerCert) against a reference predicate over the fields of the first stdout line: for every line (all byte strings, <= 8 fields) and every configuration in the bound the solver shows Start errs or returns a usable address, succeeds only for well-formed lines, reports exactly the line's protocol/version, never panics and returns within the start timeout on a symbolic clock.",
     note="Bound: " + C01_BOUND + ". Contracts: resolver, base64 and x509 outcomes are uninterpreted predicates; bufio/context/process are models. " + ENGINE)
prop("C05", ["prims.go", "c01.go"],
     [run("start", "harnessC01", ["rejected"], quick={"bound": "as C01: every rejection cause the solver finds feasible (each field invalid in turn, timeout, EOF while alive, exit before output) x the configuration space of C01"})],
     [PROC, BUFIO, CTX, STR, NET, CRYPTO], ["as C01"],
     "launch by exec.Cmd (the real CmdRunner); process liveness is the model's (Kill was called on the runner)",
     text="Same symbolic run of the real Client.Start as C01 with the kill clause as the assertion: on every feasible path on which the runner was started and Start returns an error or panics, the runner's Kill has been called by then. Failure causes are not enumerated by hand - they are the paths the solver finds feasible.",
     note="Bound as C01. The process is a model: 'terminated' means runner.Kill was invoked. " + ENGINE)

# ------------------------------------------------------------------------------------------------ C02
prop("C02", ["prims.go", "c02a.go"],
     [run("core", "harnessC02a", ["common", "disjoint"], quick={"bound": "host and plugin each with 2 versioned sets, versions arbitrary distinct ints; every map iteration order; PLUGIN_PROTOCOL_VERSIONS built as Start builds it"})],
     [STR, "os.Getenv reads the modelled process environment"], ["os.Getenv"],
     "more than 2 versions per side; legacy ProtocolVersion folding; damaged version lists",
     text="Bounded symbolic model checking of the real protocolVersion (with the real sort.Sort/sort.Reverse SSA) and the real checkProtoVersion over arbitrary version numbers on both sides and every map iteration order, against a reference 'highest common version' computed in the harness.",
     note="Bound: 2 versioned sets per side (quick). " + ENGINE)

# ------------------------------------------------------------------------------------------------ C13
prop("C13", ["prims.go", "c13.go"],
     [run("check", "harnessC13", ["match", "mismatch", "empty-checksum", "nil-hash", "open-fails"],
          quick={"bound": "digest <= 4 bytes and checksum <= 5 bytes of BitVec 8, symbolic lengths; Hash nil or not; file open failing or not"})],
     ["hash.Hash is a harness implementation returning an arbitrary digest (the hash function itself is outside the claim)", "os.Open/io.Copy/File.Close modelled: open may fail"],
     ["os.Open", "io.Copy", "hash.Hash"], "digests longer than the bound; the hash function",
     text="Bounded symbolic model checking of the real SecureConfig.Check (including the real crypto/subtle.ConstantTimeCompare SSA) over every digest/checksum byte string within the length bound: the solver shows Check returns (true,nil) iff checksum == digest, and the documented sentinel errors otherwise. Right level because the property is a universal statement over byte strings whose rare points (prefix, extension, one flipped bit) are satisfying assignments, not samples.",
     note="Bound: digest <= 4 / checksum <= 5 bytes quick. Trusted: the hash function (a harness hash.Hash returns an arbitrary digest), os.Open/io.Copy contract models. " + ENGINE)

PENDING = "check not yet registered in this build session (harness exists in prototype form and is being ported); will be claimed once it has run clean on the unchanged tree"
for i in range(1, 21):
    id = "C%02d" % i
    if id not in CLAIMS:
        CLAIMS[id] = {"claimed": False, "reason": PENDING}

os.makedirs(os.path.join(HERE, "spec"), exist_ok=True)
for id, s in SPECS.items():
    json.dump(s, open(os.path.join(HERE, "spec", id + ".json"), "w"), indent=1)
json.dump(CLAIMS, open(os.path.join(HERE, "claims.json"), "w"), indent=1)
print("specs:", sorted(SPECS))
