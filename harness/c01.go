package plugin

import (
	"bufio"
	"context"
	"crypto/tls"
	"crypto/x509"
	"encoding/base64"
	"errors"
	"io"
	"log"
	"net"
	"os/exec"
	"strconv"
	"time"

	hclog "github.com/hashicorp/go-hclog"
	"github.com/hashicorp/go-plugin/runner"
)


// ---------------- process / runner model ----------------
type vProc struct {
	mode    int // 0 line at tLine, 1 stdout EOF at tLine while alive, 2 silent, 3 dies at tLine before output
	line    string
	tLine   int64
	dead    chan struct{}
	isDead  bool
	started int
	killed  int
}

func (p *vProc) die() {
	if !p.isDead {
		p.isDead = true
		close(p.dead)
	}
}

type vPipe struct{ p *vProc }

func (*vPipe) Read(b []byte) (int, error) { return 0, io.EOF }
func (*vPipe) Close() error               { return nil }

type vRunner struct{ p *vProc }

func (r *vRunner) Start(ctx context.Context) error {
	r.p.started++
	if r.p.mode == 3 {
		go func() { vDaemon(); vSleepUntil(r.p.tLine); r.p.die() }()
	}
	return nil
}
func (r *vRunner) Diagnose(ctx context.Context) string { return "" }
func (r *vRunner) Stdout() io.ReadCloser               { return &vPipe{r.p} }
func (r *vRunner) Stderr() io.ReadCloser               { return &vPipe{r.p} }
func (r *vRunner) Name() string                        { return "vplugin" }
func (r *vRunner) Wait(ctx context.Context) error      { <-r.p.dead; return nil }
func (r *vRunner) Kill(ctx context.Context) error      { r.p.killed++; r.p.die(); return nil }
func (r *vRunner) ID() string                          { return "v1" }
func (r *vRunner) PluginToHost(n, a string) (string, string, error) {
	switch xlateMode {
	case 1:
		return "", "", errors.New("translator: cannot map this address")
	case 2:
		return n, "/host" + a, nil
	}
	return n, a, nil
}

var xlateMode int // 0 identity, 1 fails, 2 rewrites the address (another file-system namespace)
func (r *vRunner) HostToPlugin(n, a string) (string, string, error) { return n, a, nil }

// ---------------- bufio models ----------------
type scanGhost struct {
	p         *vProc
	delivered bool
	text      string
}

var scanG = map[*bufio.Scanner]*scanGhost{}
var readerG = map[*bufio.Reader]*vProc{}

//verif:model bufio.NewScanner
func mNewScanner(r io.Reader) *bufio.Scanner {
	s := new(bufio.Scanner)
	scanG[s] = &scanGhost{p: r.(*vPipe).p}
	return s
}

//verif:model (*bufio.Scanner).Scan
func mScan(s *bufio.Scanner) bool {
	g := scanG[s]
	if !g.delivered {
		g.delivered = true
		switch g.p.mode {
		case 0:
			vSleepUntil(g.p.tLine)
			g.text = g.p.line
			return true
		case 1:
			vSleepUntil(g.p.tLine)
			return false
		}
	}
	<-g.p.dead
	return false
}

//verif:model (*bufio.Scanner).Text
func mText(s *bufio.Scanner) string { return scanG[s].text }

//verif:model (*bufio.Scanner).Err
func mErr(s *bufio.Scanner) error { return nil }

//verif:model bufio.NewReaderSize
func mNewReaderSize(r io.Reader, n int) *bufio.Reader {
	b := new(bufio.Reader)
	readerG[b] = r.(*vPipe).p
	return b
}

//verif:model (*bufio.Reader).ReadLine
func mReadLine(b *bufio.Reader) ([]byte, bool, error) {
	<-readerG[b].dead
	return nil, false, io.EOF
}

// ---------------- context model ----------------
type vCtx struct {
	done   chan struct{}
	closed bool
}

func (c *vCtx) Deadline() (time.Time, bool) { return time.Time{}, false }
func (c *vCtx) Done() <-chan struct{}       { return c.done }
func (c *vCtx) Err() error {
	if c.closed {
		return context.Canceled
	}
	return nil
}
func (c *vCtx) Value(k any) any { return nil }

//verif:model context.Background
func mBackground() context.Context { return &vCtx{} }

//verif:model context.WithCancel
func mWithCancel(parent context.Context) (context.Context, context.CancelFunc) {
	c := &vCtx{done: make(chan struct{})}
	return c, func() {
		if !c.closed {
			c.closed = true
			close(c.done)
		}
	}
}

//verif:model context.WithTimeout
func mWithTimeout(parent context.Context, d time.Duration) (context.Context, context.CancelFunc) {
	return mWithCancel(parent)
}

// ---------------- os / net / crypto models ----------------
//verif:model os.Environ
func mEnviron() []string { return []string{"HOSTVAR=1"} }

//verif:model os.MkdirTemp
func mMkdirTemp(dir, pattern string) (string, error) { return "/tmp/plugin-dir-v", nil }

//verif:model os.RemoveAll
func mRemoveAll(path string) error { return nil }

//verif:model net.ResolveTCPAddr
func mResolveTCP(network, address string) (*net.TCPAddr, error) {
	if vNondetOK("resolve_tcp", address) {
		return &net.TCPAddr{Port: 1}, nil
	}
	return nil, errors.New("resolve tcp")
}

//verif:model net.ResolveUnixAddr
func mResolveUnix(network, address string) (*net.UnixAddr, error) {
	return &net.UnixAddr{Name: address, Net: "unix"}, nil // never fails for network "unix" (net/unixsock.go)
}

var lastB64 string

//verif:model crypto/x509.NewCertPool
func mNewCertPool() *x509.CertPool { return new(x509.CertPool) }

//verif:model (*encoding/base64.Encoding).DecodeString
func mDecodeString(e *base64.Encoding, s string) ([]byte, error) {
	if vNondetOK("b64", s) {
		lastB64 = s
		return []byte{1}, nil
	}
	return nil, errors.New("b64")
}

//verif:model crypto/x509.ParseCertificate
func mParseCertificate(der []byte) (*x509.Certificate, error) {
	if vNondetOK("x509", lastB64) {
		return new(x509.Certificate), nil
	}
	return nil, errors.New("x509")
}

//verif:model (*crypto/x509.CertPool).AddCert
func mAddCert(p *x509.CertPool, c *x509.Certificate) {}

// ---------------- logger ----------------
type vLogger struct{}

func (vLogger) Log(level hclog.Level, msg string, args ...interface{}) {}
func (vLogger) Trace(msg string, args ...interface{})                   {}
func (vLogger) Debug(msg string, args ...interface{})                   {}
func (vLogger) Info(msg string, args ...interface{})                    {}
func (vLogger) Warn(msg string, args ...interface{})                    {}
func (vLogger) Error(msg string, args ...interface{})                   {}
func (vLogger) IsTrace() bool                                           { return false }
func (vLogger) IsDebug() bool                                           { return false }
func (vLogger) IsInfo() bool                                            { return false }
func (vLogger) IsWarn() bool                                            { return false }
func (vLogger) IsError() bool                                           { return false }
func (vLogger) ImpliedArgs() []interface{}                              { return nil }
func (l vLogger) With(args ...interface{}) hclog.Logger                 { return l }
func (vLogger) Name() string                                            { return "v" }
func (l vLogger) Named(name string) hclog.Logger                        { return l }
func (l vLogger) ResetNamed(name string) hclog.Logger                   { return l }
func (vLogger) SetLevel(level hclog.Level)                              {}
func (vLogger) StandardLogger(o *hclog.StandardLoggerOptions) *log.Logger { return nil }
func (vLogger) StandardWriter(o *hclog.StandardLoggerOptions) io.Writer { return nil }

// ---------------- harness ----------------
func harnessC01() {
	line := vSymLine("line", 8, "|")
	p := &vProc{mode: vChoice(4), line: line, tLine: vNondetTime("tLine"), dead: make(chan struct{})}
	r := &vRunner{p}

	pv := vNondetInt("pv")
	vAssume(pv >= 0)
	var allowed []Protocol
	switch vChoice(4) {
	case 1:
		allowed = []Protocol{ProtocolNetRPC}
	case 2:
		allowed = []Protocol{ProtocolGRPC}
	case 3:
		allowed = []Protocol{ProtocolNetRPC, ProtocolGRPC}
	}
	var tlsCfg *tls.Config
	if vChoice(2) == 1 {
		tlsCfg = &tls.Config{}
	}
	mux := vChoice(2) == 1
	full := vParam("full") == 1
	pv2 := pv
	var versioned map[int]PluginSet
	if full {
		if vChoice(2) == 1 { // a second offered version, through the versioned map
			pv2 = vNondetInt("pv2")
			vAssume(pv2 != pv)
			versioned = map[int]PluginSet{pv2: {}}
			vCover("two-versions")
		}
		xlateMode = vChoice(3)
	}
	vRecord("mode", p.mode)
	vRecord("allowed", len(allowed))
	if len(allowed) == 1 {
		vRecord("allowed0", string(allowed[0]))
	}
	vRecord("tls", tlsCfg != nil)
	vRecord("mux", mux)
	vRecord("pv", pv)
	vRecord("tLine", p.tLine)
	cfg := &ClientConfig{
		HandshakeConfig:     HandshakeConfig{ProtocolVersion: uint(pv), MagicCookieKey: "K", MagicCookieValue: "V"},
		Plugins:             PluginSet{},
		VersionedPlugins:    versioned,
		AllowedProtocols:    allowed,
		TLSConfig:           tlsCfg,
		GRPCBrokerMultiplex: mux,
		Logger:              vLogger{},
		StartTimeout:        60 * time.Second,
		RunnerFunc: func(l hclog.Logger, cmd *exec.Cmd, tmp string) (runner.Runner, error) {
			return r, nil
		},
	}
	c := NewClient(cfg)

	var addr net.Addr
	var err error
	panicked := true
	t0 := vNow()
	func() {
		defer func() { recover() }()
		addr, err = c.Start()
		panicked = false
	}()
	vRecord("out.panic", panicked)
	vRecord("out.err", err != nil)
	vRecord("out.killed", p.killed)
	vRecord("out.proto", string(c.protocol))
	vRecord("out.ver", c.negotiatedVersion)
	vRecord("out.addrnil", addr == nil)
	vRecord("n", vLineN(line))
	if panicked {
		vCover("panic")
		vAssert(p.killed >= 1, "C05: plugin killed before the panic propagates")
		vAssert(false, "C01/O4: no line makes the host panic")
	}
	vAssert(vNow()-t0 <= 60*int64(time.Second), "C01/O4: Start returns within the start timeout")

	n := vLineN(line)
	if err != nil {
		vCover("rejected")
		vAssert(p.started == 0 || p.killed >= 1, "C05: a failed start kills the launched plugin")
		// the refusal is final: nothing the client reports afterwards treats the line as accepted
		started := p.started
		a2, e2 := c.Start()
		vAssert(e2 != nil && a2 == nil, "C01/O5: a refused line stays refused (a second Start does not report success)")
		vAssert(c.Protocol() == ProtocolInvalid, "C01/O5: no protocol is reported for a refused line")
		vAssert(c.ReattachConfig() == nil, "C01/O5: no reattach record for a refused plugin")
		vAssert(p.started == started, "C19: the plugin is not launched again after a failed Start")
		vDone()
	}
	vCover("accepted")
	vAssert(p.mode == 0, "success needs a line")
	vAssert(addr != nil, "C01/O1: success returns a non-nil address")
	if ta, ok := addr.(*net.TCPAddr); ok {
		vAssert(ta != nil, "C01/O1: success returns a usable (not typed-nil) address")
	}
	if ua, ok := addr.(*net.UnixAddr); ok {
		vAssert(ua != nil, "C01/O1: success returns a usable (not typed-nil) address")
	}
	vAssert(n >= 4, "C01/O2: at least four fields")
	f0, f1, f2, f3 := vLineField(line, 0), vLineField(line, 1), vLineField(line, 2), vLineField(line, 3)
	vAssert(vAtoiOK(f0) && vAtoiVal(f0) == 1, "C01/O2: core protocol version 1")
	vAssert(vAtoiOK(f1) && (vAtoiVal(f1) == pv || vAtoiVal(f1) == pv2), "C01/O2: an application version the client offers")
	vAssert(xlateMode != 1, "C01/O2: an address the runner cannot translate is not accepted")
	vAssert(f2 == "tcp" || f2 == "unix", "C01/O2: network tcp or unix")
	if f2 == "tcp" {
		a3 := f3
		if xlateMode == 2 {
			a3 = "/host" + f3 // what the runner's translator made of it is what has to resolve
		}
		vAssert(vNondetOK("resolve_tcp", a3), "C01/O2: resolvable address")
	}
	proto := "netrpc"
	if n >= 5 {
		proto = vLineField(line, 4)
	}
	eff := c.config.AllowedProtocols
	found := false
	for _, a := range eff {
		if string(a) == proto {
			found = true
		}
	}
	vAssert(found, "C01/O2: protocol in the allowed list")
	vAssert(string(c.protocol) == proto, "C01/O3: reported protocol is the line's")
	vAssert(c.negotiatedVersion == vAtoiVal(f1), "C01/O3: negotiated version is the line's")
	if n >= 6 {
		f5 := vLineField(line, 5)
		if len(f5) > 50 {
			vAssert(vNondetOK("b64", f5) && vNondetOK("x509", f5), "C01/O2: certificate field parses")
		}
	}
	if mux && proto == "grpc" {
		vAssert(n >= 7, "C01/O2: mux requested needs the seventh field")
		b, e := strconv.ParseBool(vLineField(line, 6))
		vAssert(e == nil && b, "C01/O2: mux flag true")
	}
	vDone()
}
