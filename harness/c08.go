package plugin

import (
	"io"
	"log"
	"net"
	"time"

	hclog "github.com/hashicorp/go-hclog"
	"github.com/hashicorp/go-plugin/internal/grpcmux"
	"github.com/hashicorp/go-plugin/internal/plugin"
	"github.com/hashicorp/yamux"
)


// ---------- net model ----------
type vAddr struct{}

func (vAddr) Network() string { return "unix" }
func (vAddr) String() string  { return "/tmp/plugin-main" }

type vConn struct{ peer *vConn }

func (*vConn) Read(b []byte) (int, error)         { return 0, io.EOF }
func (*vConn) Write(b []byte) (int, error)        { return len(b), nil }
func (*vConn) Close() error                       { return nil }
func (*vConn) LocalAddr() net.Addr                { return vAddr{} }
func (*vConn) RemoteAddr() net.Addr               { return vAddr{} }
func (*vConn) SetDeadline(t time.Time) error      { return nil }
func (*vConn) SetReadDeadline(t time.Time) error  { return nil }
func (*vConn) SetWriteDeadline(t time.Time) error { return nil }

type vListener struct{ q chan net.Conn }

func (l *vListener) Accept() (net.Conn, error) { return <-l.q, nil }
func (l *vListener) Close() error              { return nil }
func (l *vListener) Addr() net.Addr            { return vAddr{} }

var mainLn *vListener

//verif:model net.Dial
func mDial(network, address string) (net.Conn, error) {
	a, b := &vConn{}, &vConn{}
	a.peer, b.peer = b, a
	mainLn.q <- b
	return a, nil
}

// ---------- yamux model ----------
type sessGhost struct {
	acceptQ chan *yamux.Stream
	conn    *vConn
	closed  bool
}

var sessG = map[*yamux.Session]*sessGhost{}
var sessOfConn = map[*vConn]*yamux.Session{}
var strmPeer = map[*yamux.Stream]*yamux.Stream{}
var sessionClosed bool

func newSess(conn io.ReadWriteCloser) *yamux.Session {
	s := new(yamux.Session)
	c := conn.(*vConn)
	sessG[s] = &sessGhost{acceptQ: make(chan *yamux.Stream, 8), conn: c}
	sessOfConn[c] = s
	return s
}

//verif:model github.com/hashicorp/yamux.DefaultConfig
func mDefaultConfig() *yamux.Config { return new(yamux.Config) }

//verif:model github.com/hashicorp/yamux.Client
func mYClient(conn io.ReadWriteCloser, c *yamux.Config) (*yamux.Session, error) { return newSess(conn), nil }

//verif:model github.com/hashicorp/yamux.Server
func mYServer(conn io.ReadWriteCloser, c *yamux.Config) (*yamux.Session, error) { return newSess(conn), nil }

func openStream(s *yamux.Session) (*yamux.Stream, error) {
	g := sessG[s]
	if g.closed {
		return nil, io.ErrClosedPipe
	}
	near, far := new(yamux.Stream), new(yamux.Stream)
	strmPeer[near], strmPeer[far] = far, near
	sessG[sessOfConn[g.conn.peer]].acceptQ <- far
	return near, nil
}

//verif:model (*github.com/hashicorp/yamux.Session).Open
func mOpen(s *yamux.Session) (net.Conn, error) {
	st, err := openStream(s)
	if err != nil {
		return nil, err
	}
	return st, nil
}

//verif:model (*github.com/hashicorp/yamux.Session).OpenStream
func mOpenStream(s *yamux.Session) (*yamux.Stream, error) { return openStream(s) }

//verif:model (*github.com/hashicorp/yamux.Session).Accept
func mAccept(s *yamux.Session) (net.Conn, error) {
	st, ok := <-sessG[s].acceptQ
	if !ok {
		return nil, io.EOF
	}
	return st, nil
}

//verif:model (*github.com/hashicorp/yamux.Session).Addr
func mSessAddr(s *yamux.Session) net.Addr { return vAddr{} }

//verif:model (*github.com/hashicorp/yamux.Session).Close
func mSessClose(s *yamux.Session) error { sessG[s].closed = true; sessionClosed = true; return nil }

//verif:model (*github.com/hashicorp/yamux.Stream).Close
func mStreamClose(s *yamux.Stream) error { return nil }

// ---------- streamer pair (the real pumps are C07's subject) ----------
type vStreamer struct {
	out, in chan *plugin.ConnInfo
	quit    chan struct{}
	closed  bool
}

func (s *vStreamer) Send(i *plugin.ConnInfo) error { s.out <- i; return nil }
func (s *vStreamer) Recv() (*plugin.ConnInfo, error) {
	if s.quit == nil {
		return <-s.in, nil
	}
	select {
	case m := <-s.in:
		return m, nil
	case <-s.quit:
		return nil, io.EOF
	}
}
func (s *vStreamer) Close() {
	if s.quit != nil && !s.closed {
		s.closed = true
		close(s.quit)
	}
}

// ---------- logger ----------
type vLogger struct{}

func (vLogger) Log(level hclog.Level, msg string, args ...interface{}) {}
func (vLogger) Trace(msg string, args ...interface{})                   {}
func (vLogger) Debug(msg string, args ...interface{})                   {}
func (vLogger) Info(msg string, args ...interface{})                    {}
func (vLogger) Warn(msg string, args ...interface{})                    {}
func (vLogger) Error(msg string, args ...interface{})                   {}
func (vLogger) IsTrace() bool                                           { return false }
func (vLogger) IsDebug() bool                                           { return false }
func (vLogger) IsInfo() bool                                            { return false }
func (vLogger) IsWarn() bool                                            { return false }
func (vLogger) IsError() bool                                           { return false }
func (vLogger) ImpliedArgs() []interface{}                              { return nil }
func (l vLogger) With(args ...interface{}) hclog.Logger                 { return l }
func (vLogger) Name() string                                            { return "v" }
func (l vLogger) Named(name string) hclog.Logger                        { return l }
func (l vLogger) ResetNamed(name string) hclog.Logger                   { return l }
func (vLogger) SetLevel(level hclog.Level)                              {}
func (vLogger) StandardLogger(o *hclog.StandardLoggerOptions) *log.Logger { return nil }
func (vLogger) StandardWriter(o *hclog.StandardLoggerOptions) io.Writer { return nil }

const sec = int64(1000000000)

// One establishment: plugin accepts ID n, host dials ID n; accept-first or dial-first, gap < 5 s.
func harnessC08() {
	mainLn = &vListener{q: make(chan net.Conn, 4)}
	lg := vLogger{}
	sm := grpcmux.NewGRPCServerMuxer(lg, mainLn)
	cm, err := grpcmux.NewGRPCClientMuxer(lg, vAddr{})
	vAssume(err == nil)

	h2p, p2h := make(chan *plugin.ConnInfo, 8), make(chan *plugin.ConnInfo, 8)
	hb := newGRPCBroker(&vStreamer{out: h2p, in: p2h}, nil, UnixSocketConfig{}, nil, cm)
	pb := newGRPCBroker(&vStreamer{out: p2h, in: h2p}, nil, UnixSocketConfig{}, nil, sm)
	go func() { vDaemon(); hb.Run() }()
	go func() { vDaemon(); pb.Run() }()

	mainErr := false
	mainGot := 0
	go func() { // what grpc's Serve does with the plugin's main listener
		vDaemon()
		for {
			_, err := sm.Accept()
			if err != nil {
				mainErr = true
				return
			}
			mainGot++
		}
	}()

	id := vNondetU32("id")
	gap := vNondetTime("gap")
	vAssume(gap > 0 && gap < 5*sec)
	tA, tD := int64(0), gap
	if vChoice(2) == 1 {
		vCover("dial-first")
		tA, tD = gap, 0
	} else {
		vCover("accept-first")
	}

	var got, dialed net.Conn
	var aerr, derr error
	doneA, doneD := make(chan struct{}), make(chan struct{})
	go func() {
		vSleepUntil(tA)
		ln, err := pb.Accept(id)
		if err == nil {
			got, err = ln.Accept()
		}
		aerr = err
		close(doneA)
	}()
	go func() {
		vSleepUntil(tD)
		dialed, derr = hb.muxDial(id)("", 0)
		close(doneD)
	}()
	<-doneD
	vAssert(derr == nil, "C08: dial for a correctly established ID succeeds")
	select {
	case <-doneA:
	case <-time.After(6 * time.Second):
		vCover("listener-starved")
		vAssert(!mainErr, "C08: the main accept loop keeps working (knock handled before the ID's listener was registered)")
		vAssert(false, "C08: the ID's listener receives the dialled stream")
	}
	vAssert(aerr == nil, "C08: the ID's listener accepts")
	vAssert(got.(*yamux.Stream) == strmPeer[dialed.(*yamux.Stream)], "C08: stream dialled for n is delivered by n's listener")
	vAssert(!mainErr, "C08: the main accept loop keeps working")
	vAssert(mainGot == 0, "C08: a brokered stream is never handed to the main listener")
	vAssert(!sessionClosed, "C08: the session stays open")
	vCover("established")
	vDone()
}


// C09, gRPC broker with multiplexing: a history of <= 2 dials whose IDs (not assumed distinct) nobody accepts, then -
// after every timer of the history has expired - a fresh accept/dial pair on another ID must still succeed, and
// closing both brokers ends their goroutines.
func harnessC09mux() {
	mainLn = &vListener{q: make(chan net.Conn, 4)}
	lg := vLogger{}
	sm := grpcmux.NewGRPCServerMuxer(lg, mainLn)
	cm, err := grpcmux.NewGRPCClientMuxer(lg, vAddr{})
	vAssume(err == nil)
	h2p, p2h := make(chan *plugin.ConnInfo, 8), make(chan *plugin.ConnInfo, 8)
	hs := &vStreamer{out: h2p, in: p2h, quit: make(chan struct{})}
	ps := &vStreamer{out: p2h, in: h2p, quit: make(chan struct{})}
	hb := newGRPCBroker(hs, nil, UnixSocketConfig{}, nil, cm)
	pb := newGRPCBroker(ps, nil, UnixSocketConfig{}, nil, sm)
	hRun, pRun := false, false
	go func() { vDaemon(); hb.Run(); hRun = true }()
	go func() { vDaemon(); pb.Run(); pRun = true }()
	go func() {
		vDaemon()
		for {
			if _, err := sm.Accept(); err != nil {
				return
			}
		}
	}()

	x1, x2 := vNondetU32("x1"), vNondetU32("x2")
	t1, t2 := vNondetTime("t1"), vNondetTime("t2")
	vAssume(t1 <= t2)
	n := 1 + vChoice(2)
	last := t1
	done1, done2 := make(chan struct{}), make(chan struct{})
	go func() {
		vSleepUntil(t1)
		t0 := vNow()
		_, err := hb.muxDial(x1)("", 0)
		vAssert(err != nil, "C09: a dial nobody accepts returns an error")
		vAssert(vNow()-t0 <= int64(n)*6*sec, "C09: an unmatched dial returns within the pending window (multiplexed dials are serialised: one window per outstanding dial)")
		close(done1)
	}()
	if n == 2 {
		last = t2
		go func() {
			vSleepUntil(t2)
			t0 := vNow()
			_, err := hb.muxDial(x2)("", 0)
			vAssert(err != nil, "C09: a second dial nobody accepts returns an error")
			vAssert(vNow()-t0 <= int64(n)*6*sec, "C09: an unmatched dial returns within the pending window (multiplexed dials are serialised: one window per outstanding dial)")
			close(done2)
		}()
	} else {
		close(done2)
	}
	<-done1
	<-done2
	vCover("history-done")

	f := vNondetU32("f")
	vAssume(f != x1 && f != x2)
	vSleepUntil(last + 12*sec)
	var got, dialed net.Conn
	var aerr, derr error
	doneA := make(chan struct{})
	go func() {
		ln, err := pb.Accept(f)
		if err == nil {
			got, err = ln.Accept()
		}
		aerr = err
		close(doneA)
	}()
	dialed, derr = hb.muxDial(f)("", 0)
	vAssert(derr == nil, "C09: after the history a fresh dial still succeeds")
	select {
	case <-doneA:
	case <-time.After(6 * time.Second):
		vAssert(false, "C09: after the history a fresh accept still receives its stream")
	}
	vAssert(aerr == nil, "C09: after the history a fresh accept still succeeds")
	vAssert(got.(*yamux.Stream) == strmPeer[dialed.(*yamux.Stream)], "C09: the fresh pair is connected")
	vCover("fresh-pair")

	hb.Close()
	pb.Close()
	vSleepUntil(vNow() + sec)
	vAssert(hRun && pRun, "C09: closing the brokers ends their Run goroutines")
	vCover("closed")
	vDone()
}

// C08, both directions and sequences: k sequential establishments (as documented: one at a time); each chooses its
// direction (the plugin accepts and the host dials, or the host accepts and the plugin dials), which side goes first,
// and a symbolic gap; IDs are symbolic and pairwise distinct. After every establishment the dialled stream must be the
// one delivered by that ID's listener, the plugin's main accept loop must be alive and have received nothing, and the
// session must be open (the main connection and earlier brokered connections live on it).
func harnessC08seq() {
	mainLn = &vListener{q: make(chan net.Conn, 4)}
	lg := vLogger{}
	sm := grpcmux.NewGRPCServerMuxer(lg, mainLn)
	cm, err := grpcmux.NewGRPCClientMuxer(lg, vAddr{})
	vAssume(err == nil)
	h2p, p2h := make(chan *plugin.ConnInfo, 8), make(chan *plugin.ConnInfo, 8)
	hb := newGRPCBroker(&vStreamer{out: h2p, in: p2h}, nil, UnixSocketConfig{}, nil, cm)
	pb := newGRPCBroker(&vStreamer{out: p2h, in: h2p}, nil, UnixSocketConfig{}, nil, sm)
	go func() { vDaemon(); hb.Run() }()
	go func() { vDaemon(); pb.Run() }()
	mainErr := false
	mainGot := 0
	go func() {
		vDaemon()
		for {
			_, err := sm.Accept()
			if err != nil {
				mainErr = true
				return
			}
			mainGot++
		}
	}()
	k := vParam("k")
	var ids []uint32
	base := int64(0)
	for e := 0; e < k; e++ {
		id := vNondetU32("id")
		for _, o := range ids {
			vAssume(id != o)
		}
		ids = append(ids, id)
		gap := vNondetTime("gap")
		vAssume(gap > 0 && gap < 5*sec)
		acc, dia := pb, hb
		if vChoice(2) == 1 {
			vCover("host-accepts")
			acc, dia = hb, pb
		} else {
			vCover("plugin-accepts")
		}
		tA, tD := base, base+gap
		if vChoice(2) == 1 {
			vCover("dial-first")
			tA, tD = base+gap, base
		} else {
			vCover("accept-first")
		}
		var got, dialed net.Conn
		var aerr, derr error
		doneA, doneD := make(chan struct{}), make(chan struct{})
		go func() {
			vSleepUntil(tA)
			ln, err := acc.Accept(id)
			if err == nil {
				got, err = ln.Accept()
			}
			aerr = err
			close(doneA)
		}()
		go func() {
			vSleepUntil(tD)
			dialed, derr = dia.muxDial(id)("", 0)
			close(doneD)
		}()
		<-doneD
		vAssert(derr == nil, "C08: dial for a correctly established ID succeeds")
		select {
		case <-doneA:
		case <-time.After(6 * time.Second):
			vAssert(!mainErr, "C08: the main accept loop keeps working")
			vAssert(false, "C08: the ID's listener receives the dialled stream")
		}
		vAssert(aerr == nil, "C08: the ID's listener accepts")
		vAssert(got.(*yamux.Stream) == strmPeer[dialed.(*yamux.Stream)], "C08: stream dialled for n is delivered by n's listener")
		vAssert(!mainErr, "C08: the main accept loop keeps working")
		vAssert(mainGot == 0, "C08: a brokered stream is never handed to the main listener")
		vAssert(!sessionClosed, "C08: the session stays open (main and earlier connections keep working)")
		base += 20 * sec
		vSleepUntil(base)
	}
	vCover("established")
	vDone()
}

// harnessC08sameID: both sides count their IDs from 1, so the same number is routinely in use in both directions.
// Two establishments with ONE symbolic ID, the second in the opposite direction, starting a symbolic pause (0..10 s)
// after the first completed, each accept-first or dial-first with a symbolic gap: timers armed by the first are
// still running during the second. Canonical schedule, symbolic clock.
func harnessC08sameID() {
	mainLn = &vListener{q: make(chan net.Conn, 4)}
	lg := vLogger{}
	sm := grpcmux.NewGRPCServerMuxer(lg, mainLn)
	cm, err := grpcmux.NewGRPCClientMuxer(lg, vAddr{})
	vAssume(err == nil)
	h2p, p2h := make(chan *plugin.ConnInfo, 8), make(chan *plugin.ConnInfo, 8)
	hb := newGRPCBroker(&vStreamer{out: h2p, in: p2h}, nil, UnixSocketConfig{}, nil, cm)
	pb := newGRPCBroker(&vStreamer{out: p2h, in: h2p}, nil, UnixSocketConfig{}, nil, sm)
	go func() { vDaemon(); hb.Run() }()
	go func() { vDaemon(); pb.Run() }()
	mainErr := false
	mainGot := 0
	go func() {
		vDaemon()
		for {
			_, err := sm.Accept()
			if err != nil {
				mainErr = true
				return
			}
			mainGot++
		}
	}()
	id := vNondetU32("id")
	acc, dia := pb, hb
	if vChoice(2) == 1 {
		vCover("host-accepts-first")
		acc, dia = hb, pb
	} else {
		vCover("plugin-accepts-first")
	}
	base := int64(0)
	for e := 0; e < 2; e++ {
		gap := vNondetTime("gap")
		vAssume(gap > 0 && gap < 5*sec)
		tA, tD := base, base+gap
		if vChoice(2) == 1 {
			vCover("dial-first")
			tA, tD = base+gap, base
		} else {
			vCover("accept-first")
		}
		var got, dialed net.Conn
		var aerr, derr error
		doneA, doneD := make(chan struct{}), make(chan struct{})
		a, d := acc, dia
		go func() {
			vSleepUntil(tA)
			ln, err := a.Accept(id)
			if err == nil {
				got, err = ln.Accept()
			}
			aerr = err
			close(doneA)
		}()
		go func() {
			vSleepUntil(tD)
			dialed, derr = d.muxDial(id)("", 0)
			close(doneD)
		}()
		<-doneD
		vAssert(derr == nil, "C08: dial for a correctly established ID succeeds (same number in use in the other direction)")
		select {
		case <-doneA:
		case <-time.After(6 * time.Second):
			vAssert(false, "C08: the ID's listener receives the dialled stream (same number in use in the other direction)")
		}
		vAssert(aerr == nil, "C08: the ID's listener accepts")
		vAssert(got.(*yamux.Stream) == strmPeer[dialed.(*yamux.Stream)], "C08: stream dialled for n is delivered by n's listener")
		vAssert(!mainErr && mainGot == 0, "C08: a brokered stream is never handed to the main listener and the main accept loop keeps working")
		vAssert(!sessionClosed, "C08: the session stays open (main and earlier connections keep working)")
		pause := vNondetTime("pause")
		vAssume(pause >= 0 && pause <= 10*sec)
		base = vNow() + pause
		vSleepUntil(base)
		acc, dia = dia, acc
	}
	vCover("established")
	vDone()
}

// harnessC08second: a SECOND brokered connection in the same direction on another ID, while the first ID's listener is
// still being served (a gRPC server keeps calling Accept on its listener): the stream dialled for b is delivered by b's
// listener, and a's listener receives nothing more. Canonical schedule, symbolic IDs and gaps.
func harnessC08second() {
	mainLn = &vListener{q: make(chan net.Conn, 4)}
	lg := vLogger{}
	sm := grpcmux.NewGRPCServerMuxer(lg, mainLn)
	cm, err := grpcmux.NewGRPCClientMuxer(lg, vAddr{})
	vAssume(err == nil)
	h2p, p2h := make(chan *plugin.ConnInfo, 8), make(chan *plugin.ConnInfo, 8)
	hb := newGRPCBroker(&vStreamer{out: h2p, in: p2h}, nil, UnixSocketConfig{}, nil, cm)
	pb := newGRPCBroker(&vStreamer{out: p2h, in: h2p}, nil, UnixSocketConfig{}, nil, sm)
	go func() { vDaemon(); hb.Run() }()
	go func() { vDaemon(); pb.Run() }()
	mainGot := 0
	go func() {
		vDaemon()
		for {
			if _, err := sm.Accept(); err != nil {
				return
			}
			mainGot++
		}
	}()
	acc, dia := pb, hb
	if vChoice(2) == 1 {
		vCover("host-accepts")
		acc, dia = hb, pb
	} else {
		vCover("plugin-accepts")
	}
	a, b := vNondetU32("a"), vNondetU32("b")
	vAssume(a != b)
	ids := []uint32{a, b}
	var got [2][]net.Conn
	var dialed [2]net.Conn
	base := int64(0)
	for e := 0; e < 2; e++ {
		e := e
		gap := vNondetTime("gap")
		vAssume(gap > 0 && gap < 5*sec)
		tA, tD := base, base+gap
		if vChoice(2) == 1 {
			vCover("dial-first")
			tA, tD = base+gap, base
		} else {
			vCover("accept-first")
		}
		var aerr, derr error
		doneD := make(chan struct{})
		go func() {
			vSleepUntil(tA)
			ln, err := acc.Accept(ids[e])
			aerr = err
			if err != nil {
				return
			}
			vDaemon() // from here on: the serve loop of this ID's server
			for {
				c, err := ln.Accept()
				if err != nil {
					return
				}
				got[e] = append(got[e], c)
			}
		}()
		go func() {
			vSleepUntil(tD)
			dialed[e], derr = dia.muxDial(ids[e])("", 0)
			close(doneD)
		}()
		<-doneD
		vSleepUntil(vNow() + 6*sec)
		vAssert(aerr == nil && derr == nil, "C08: accept and dial of a correctly established ID succeed (second connection in the same direction)")
		vAssert(len(got[e]) == 1 && got[e][0].(*yamux.Stream) == strmPeer[dialed[e].(*yamux.Stream)], "C08: the stream dialled for n is delivered by n's listener (second connection in the same direction)")
		vAssert(len(got[0]) == 1, "C08: an earlier ID's listener, still being served, receives none of the later connections")
		vAssert(mainGot == 0 && !sessionClosed, "C08: the main listener gets no brokered stream and the session stays open")
		base = vNow() + sec
		vSleepUntil(base)
	}
	vCover("both-established")
	vDone()
}

// C20: a multiplexed brokered listener closed from two goroutines at once (at shutdown GRPCBroker.Close closes every
// listener still being served while the AcceptAndServe goroutine it woke closes its own): all schedules within the
// reversal bound; no panic (double close of the pending entry's channel), no race.
func harnessC20muxListenerClose() {
	mainLn = &vListener{q: make(chan net.Conn, 4)}
	lg := vLogger{}
	sm := grpcmux.NewGRPCServerMuxer(lg, mainLn)
	cm, err := grpcmux.NewGRPCClientMuxer(lg, vAddr{})
	vAssume(err == nil)
	h2p, p2h := make(chan *plugin.ConnInfo, 8), make(chan *plugin.ConnInfo, 8)
	hb := newGRPCBroker(&vStreamer{out: h2p, in: p2h}, nil, UnixSocketConfig{}, nil, cm)
	pb := newGRPCBroker(&vStreamer{out: p2h, in: h2p}, nil, UnixSocketConfig{}, nil, sm)
	b := pb
	if vChoice(2) == 1 {
		vCover("host-side")
		b = hb
	} else {
		vCover("plugin-side")
	}
	ln, err := b.Accept(7)
	vAssume(err == nil)
	done := make(chan struct{}, 2)
	go func() { ln.Close(); done <- struct{}{} }()
	go func() { ln.Close(); done <- struct{}{} }()
	<-done
	<-done
	ln.Close() // and once more, sequentially
	vCover("closed-twice")
	vDone()
}

// harnessC08twoDials: two brokered connections being dialled at once in one direction: each stream reaches its own ID's
// listener. NOT REGISTERED as a run of any check: GRPCBrokerMultiplex documents that multiplexed streams must be
// established one after the other, and C08 is stated for that use; with two establishments overlapping the unchanged
// tree itself misroutes in some schedules of this model (host side: a listener that was unblocked but has not yet
// called session.Accept loses its stream to the next listener that is unblocked), so the run would alarm on code the
// property does not cover. Kept for the record (DESIGN.md 0.5); `gpv run -dpor 2 harnessC08twoDials prims.go c08.go`.
func harnessC08twoDials() {
	mainLn = &vListener{q: make(chan net.Conn, 4)}
	lg := vLogger{}
	sm := grpcmux.NewGRPCServerMuxer(lg, mainLn)
	cm, err := grpcmux.NewGRPCClientMuxer(lg, vAddr{})
	vAssume(err == nil)
	h2p, p2h := make(chan *plugin.ConnInfo, 8), make(chan *plugin.ConnInfo, 8)
	hb := newGRPCBroker(&vStreamer{out: h2p, in: p2h}, nil, UnixSocketConfig{}, nil, cm)
	pb := newGRPCBroker(&vStreamer{out: p2h, in: h2p}, nil, UnixSocketConfig{}, nil, sm)
	go func() { vDaemon(); hb.Run() }()
	go func() { vDaemon(); pb.Run() }()
	mainGot := 0
	go func() {
		vDaemon()
		for {
			if _, err := sm.Accept(); err != nil {
				return
			}
			mainGot++
		}
	}()
	acc, dia := pb, hb
	if vChoice(2) == 1 {
		vCover("host-accepts")
		acc, dia = hb, pb
	} else {
		vCover("plugin-accepts")
	}
	a, b := vNondetU32("a"), vNondetU32("b")
	vAssume(a != b)
	ids := []uint32{a, b}
	var got [2][]net.Conn
	for e := 0; e < 2; e++ {
		e := e
		ln, err := acc.Accept(ids[e])
		vAssume(err == nil)
		go func() {
			vDaemon()
			for {
				c, err := ln.Accept()
				if err != nil {
					return
				}
				got[e] = append(got[e], c)
			}
		}()
	}
	vSleepUntil(sec)
	var dialed [2]net.Conn
	var derr [2]error
	done := make(chan struct{}, 2)
	for e := 0; e < 2; e++ {
		e := e
		go func() { dialed[e], derr[e] = dia.muxDial(ids[e])("", 0); done <- struct{}{} }()
	}
	<-done
	<-done
	vSleepUntil(vNow() + 6*sec)
	vAssert(derr[0] == nil && derr[1] == nil, "C08: two dials in flight at once both succeed")
	for e := 0; e < 2; e++ {
		vAssert(len(got[e]) == 1 && got[e][0].(*yamux.Stream) == strmPeer[dialed[e].(*yamux.Stream)], "C08: with two dials in flight at once each stream is delivered by its own ID's listener")
	}
	vAssert(mainGot == 0 && !sessionClosed, "C08: the main listener gets no brokered stream and the session stays open")
	vCover("both-routed")
	vDone()
}
