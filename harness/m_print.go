package plugin

// Every way of writing to the process's standard output ends in the harness's model of fmt.Printf (mPrintf), so that a
// behaviour-preserving rewrite of how go-plugin prints its handshake line (Println, Fprintf(os.Stdout, ...),
// os.Stdout.WriteString, ...) is seen exactly like the original.

import (
	"fmt"
	"io"
	"os"
)

func mIsStdout(w io.Writer) bool {
	f, ok := w.(*os.File)
	return ok && f == os.Stdout
}

// A process's ORIGINAL stdout file, kept by somebody after os.Stdout was pointed elsewhere (go-plugin's Serve redirects
// os.Stdout to a pipe after printing the handshake line): a write to it still lands on the real stdout. The composed
// world registers each process's original file and the function that records such a write.
var mOrigStdoutOf = map[*os.File]bool{}
var mRealStdoutHook func(s string)

func mWriteOrig(f *os.File, s string) bool {
	if f != os.Stdout && mOrigStdoutOf[f] && mRealStdoutHook != nil {
		mRealStdoutHook(s)
		return true
	}
	return false
}

//verif:model fmt.Println
func mPrintln(a ...any) (int, error) { return mPrintf("%s", fmt.Sprintln(a...)) }

//verif:model fmt.Print
func mPrint(a ...any) (int, error) { return mPrintf("%s", fmt.Sprint(a...)) }

//verif:model fmt.Fprintf
func mFprintf(w io.Writer, format string, a ...any) (int, error) {
	if mIsStdout(w) {
		return mPrintf("%s", fmt.Sprintf(format, a...))
	}
	return 0, nil
}

//verif:model fmt.Fprintln
func mFprintln(w io.Writer, a ...any) (int, error) {
	if mIsStdout(w) {
		return mPrintf("%s", fmt.Sprintln(a...))
	}
	return 0, nil
}

//verif:model fmt.Fprint
func mFprint(w io.Writer, a ...any) (int, error) {
	if mIsStdout(w) {
		return mPrintf("%s", fmt.Sprint(a...))
	}
	return 0, nil
}

//verif:model (*os.File).WriteString
func mFileWriteString(f *os.File, s string) (int, error) {
	if mWriteOrig(f, s) {
		return len(s), nil
	}
	if f == os.Stdout {
		return mPrintf("%s", s)
	}
	return len(s), nil
}

//verif:model (*os.File).Write
func mFileWrite(f *os.File, b []byte) (int, error) {
	if mWriteOrig(f, string(b)) {
		return len(b), nil
	}
	if f == os.Stdout {
		return mPrintf("%s", string(b))
	}
	return len(b), nil
}

//verif:model io.WriteString
func mIoWriteString(w io.Writer, s string) (int, error) {
	if mIsStdout(w) {
		return mPrintf("%s", s)
	}
	return w.Write([]byte(s))
}
