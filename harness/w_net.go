package plugin

// World model, part 2: ghost file system, listeners, connections, TLS wiring with the crypto/tls contract.

import (
	"crypto/tls"
	"crypto/x509"
	"encoding/base64"
	"errors"
	"fmt"
	"net"
	"os"
	"os/signal"
	"os/user"
	"strings"
	"time"
)

// ---------------------------------------------------------------------------------------------- files
var wFiles = map[string]bool{} // every path that exists
var wTempN int
var wFileName = map[*os.File]string{}
var wFilePipe = map[*os.File]*wPipe{} // os.Pipe ends
var wEvents []string                  // "listen:<path>", "print", ... in order

var wMadeDirs = map[string]bool{} // directories made by MkdirTemp (a file cannot be created in one that was removed)

//verif:model os.CreateTemp
func mCreateTemp(dir, pattern string) (*os.File, error) {
	if dir == "" {
		dir = "/tmp"
	}
	if wMadeDirs[dir] && !wFiles[dir] {
		return nil, &os.PathError{Op: "open", Path: dir + "/" + pattern, Err: os.ErrNotExist}
	}
	wTempN++
	name := fmt.Sprintf("%s/%s%d", dir, pattern, wTempN)
	f := new(os.File)
	wFileName[f] = name
	wFiles[name] = true
	return f, nil
}

//verif:model os.MkdirTemp
func mMkdirTemp(dir, pattern string) (string, error) {
	if dir == "" {
		dir = "/tmp"
	}
	wTempN++
	name := fmt.Sprintf("%s/%s%d", dir, pattern, wTempN)
	wFiles[name] = true
	wMadeDirs[name] = true
	return name, nil
}

//verif:model (*os.File).Name
func mFileName(f *os.File) string { return wFileName[f] }

//verif:model (*os.File).Close
func mFileClose(f *os.File) error {
	if p := wFilePipe[f]; p != nil && wPipeWriteEnd[f] {
		p.closeWrite()
	}
	return nil
}

//verif:model (*os.File).Sync
func mFileSync(f *os.File) error { return nil }

//verif:model os.Remove
func mRemove(name string) error {
	if !wFiles[name] {
		return os.ErrNotExist
	}
	for f := range wFiles { // os.Remove refuses a directory that is not empty
		if strings.HasPrefix(f, name+"/") {
			return errors.New("remove: directory not empty")
		}
	}
	delete(wFiles, name)
	return nil
}

//verif:model os.RemoveAll
func mRemoveAll(path string) error {
	for f := range wFiles {
		if f == path || strings.HasPrefix(f, path+"/") {
			delete(wFiles, f)
		}
	}
	return nil
}

//verif:model os.Chmod
func mChmod(name string, mode os.FileMode) error { return nil }

var wPipeWriteEnd = map[*os.File]bool{}

//verif:model os.Pipe
func mPipe() (*os.File, *os.File, error) {
	r, w := new(os.File), new(os.File)
	p := newWPipe()
	wFilePipe[r], wFilePipe[w] = p, p
	wPipeWriteEnd[w] = true
	return r, w, nil
}

//verif:model os/signal.Notify
func mNotify(c chan<- os.Signal, sig ...os.Signal) {}

var _ = signal.Notify

//verif:model os.Environ
func mEnviron() []string { return wHostEnv }

var wHostEnv = []string{"HOSTVAR=1"}

// ---------------------------------------------------------------------------------------------- addresses
type wAddr struct{ network, addr string }

func (a wAddr) Network() string { return a.network }
func (a wAddr) String() string  { return a.addr }

//verif:model net.ResolveUnixAddr
func mResolveUnix(network, address string) (*net.UnixAddr, error) {
	return &net.UnixAddr{Name: address, Net: "unix"}, nil
}

//verif:model (*net.UnixAddr).String
func mUnixAddrString(a *net.UnixAddr) string { return a.Name }

//verif:model (*net.UnixAddr).Network
func mUnixAddrNetwork(a *net.UnixAddr) string { return "unix" }

var wTCPAddrText = map[*net.TCPAddr]string{}

//verif:model net.ResolveTCPAddr
func mResolveTCP(network, address string) (*net.TCPAddr, error) {
	a := &net.TCPAddr{Port: 1}
	wTCPAddrText[a] = address
	return a, nil
}

//verif:model (*net.TCPAddr).String
func mTCPAddrString(a *net.TCPAddr) string { return wTCPAddrText[a] }

//verif:model (*net.TCPAddr).Network
func mTCPAddrNetwork(a *net.TCPAddr) string { return "tcp" }

// ---------------------------------------------------------------------------------------------- listeners
type wListener struct {
	addr    wAddr
	q       chan net.Conn
	closed  bool
	closeCh chan struct{}
	owner   int
}

var wListeners []*wListener

// host and plugin may live in different file-system namespaces (custom runner): a path of the plugin is visible on
// the host under /host, a path of the host is visible to the plugin under /plug
var wNamespaces bool

// Of the HOST's files only the directory the runner was given for sockets is shared with the plugin's namespace.
var wSharedDir string

func wVisible(l *wListener, from int) string {
	if !wNamespaces || l.owner == from || l.addr.network != "unix" {
		return l.addr.addr
	}
	if from == 0 {
		return "/host" + l.addr.addr
	}
	if l.owner == 0 && wSharedDir != "" && !strings.HasPrefix(l.addr.addr, wSharedDir+"/") {
		return "\x00not visible from the plugin's namespace: " + l.addr.addr
	}
	return "/plug" + l.addr.addr
}

//verif:model net.Listen
func mListen(network, address string) (net.Listener, error) {
	for _, l := range wListeners {
		if !l.closed && l.addr.network == network && l.addr.addr == address && l.owner == vCurProc() {
			return nil, errors.New("listen: address already in use")
		}
	}
	l := &wListener{addr: wAddr{network, address}, q: make(chan net.Conn, 8), closeCh: make(chan struct{}), owner: vCurProc()}
	wListeners = append(wListeners, l)
	if network == "unix" {
		wFiles[address] = true
	}
	wEvents = append(wEvents, "listen")
	wTrace("listen " + address)
	return l, nil
}

func (l *wListener) Accept() (net.Conn, error) {
	select {
	case c := <-l.q:
		return c, nil
	case <-l.closeCh:
		return nil, net.ErrClosed
	}
}

// Close: Go's UnixListener unlinks its socket file when closed (it was created by Listen)
func (l *wListener) Close() error {
	if l.closed {
		return net.ErrClosed
	}
	wProcTouch(l.owner)
	l.closed = true
	close(l.closeCh)
	wTrace("close listener " + l.addr.addr)
	if l.addr.network == "unix" {
		delete(wFiles, l.addr.addr)
	}
	return nil
}
func (l *wListener) Addr() net.Addr { return l.addr }

// ---------------------------------------------------------------------------------------------- connections
type wConn struct {
	peer    *wConn
	closed  bool
	closeCh chan struct{}
	owner   int
	acceptQ chan *wStream // yamux streams opened by the peer, waiting for this end's Accept
	sec     *tls.Config   // TLS configuration this end speaks with (nil = plaintext)
	secSet  bool
	client  bool // the dialling end
	served  any  // what serves this end (a *wGRPCServer for accepted gRPC connections)
	servedC chan struct{}
}

var wConns []*wConn

func newWConnPair(dialer, acceptor int) (*wConn, *wConn) {
	a := &wConn{closeCh: make(chan struct{}), owner: dialer, acceptQ: make(chan *wStream, 16), client: true, servedC: make(chan struct{})}
	b := &wConn{closeCh: make(chan struct{}), owner: acceptor, acceptQ: make(chan *wStream, 16), servedC: make(chan struct{})}
	a.peer, b.peer = b, a
	wConns = append(wConns, a, b)
	return a, b
}

func (c *wConn) shut() {
	if !c.closed {
		c.closed = true
		close(c.closeCh)
	}
}
func (c *wConn) dead() bool                        { return c.closed || c.peer.closed }
func (c *wConn) Read(b []byte) (int, error)        { return 0, errors.New("raw Read of a modelled connection") }
func (c *wConn) Write(b []byte) (int, error)       { return len(b), nil }
func (c *wConn) Close() error                      { c.shut(); return nil }
func (c *wConn) LocalAddr() net.Addr               { return wAddr{"unix", "local"} }
func (c *wConn) RemoteAddr() net.Addr              { return wAddr{"unix", "remote"} }
func (c *wConn) SetDeadline(t time.Time) error     { return nil }
func (c *wConn) SetReadDeadline(t time.Time) error { return nil }
func (c *wConn) SetWriteDeadline(t time.Time) error {
	return nil
}

//verif:model net.Dial
func mDial(network, address string) (net.Conn, error) {
	from := vCurProc()
	for _, l := range wListeners {
		if l.closed || l.addr.network != network || wVisible(l, from) != address {
			continue
		}
		if p := wProcs[l.owner]; p != nil && (p.isDead || p.frozen) {
			continue
		}
		a, b := newWConnPair(from, l.owner)
		select {
		case l.q <- b:
			return a, nil
		default:
			return nil, errors.New("connect: backlog full")
		}
	}
	return nil, errors.New("connect: connection refused / no such file")
}

// ---------------------------------------------------------------------------------------------- TLS (crypto/tls contract)
// Certificates are identities; pools are sets of identities. A TLS endpoint's behaviour is determined by its tls.Config:
//   server: presents Certificates[0]; with ClientAuth = RequireAndVerifyClientCert accepts a client iff the client presents
//           a certificate whose identity is in ClientCAs (RequireAnyClientCert: any certificate; VerifyClientCertIfGiven:
//           none or one in ClientCAs; NoClientCert / RequestClientCert: anyone);
//   client: accepts the server iff InsecureSkipVerify or the server certificate's identity is in RootCAs;
//   a TLS end talking to a plaintext end fails.
var wCertN int
var wPoolG = map[*x509.CertPool][]string{}
var wCertID = map[*x509.Certificate]string{}

func wPad(s string) string { // certificates on the handshake line are only looked at when longer than 50 characters
	for len(s) < 60 {
		s += "="
	}
	return s
}

//verif:model github.com/hashicorp/go-plugin.generateCert
func mGenerateCert() ([]byte, []byte, error) {
	wCertN++
	id := fmt.Sprintf("CERT#%d", wCertN)
	return []byte("PEM:" + id), []byte("KEY:" + id), nil
}

func wCertIdent(b []byte) string {
	s := string(b)
	if strings.HasPrefix(s, "PEM:") {
		return strings.TrimPrefix(s, "PEM:")
	}
	if strings.HasPrefix(s, "DER:") {
		return strings.TrimPrefix(s, "DER:")
	}
	return s
}

//verif:model crypto/tls.X509KeyPair
func mX509KeyPair(c, k []byte) (tls.Certificate, error) {
	return tls.Certificate{Certificate: [][]byte{[]byte("DER:" + wCertIdent(c))}}, nil
}

//verif:model crypto/x509.NewCertPool
func mNewCertPool() *x509.CertPool { return new(x509.CertPool) }

//verif:model (*crypto/x509.CertPool).AppendCertsFromPEM
func mAppendCerts(p *x509.CertPool, pem []byte) bool {
	if !strings.HasPrefix(string(pem), "PEM:") { // no parsable certificate in the input (empty, truncated, garbage): nothing is added
		return false
	}
	wPoolG[p] = append(wPoolG[p], wCertIdent(pem))
	return true
}

//verif:model (*crypto/x509.CertPool).AddCert
func mAddCert(p *x509.CertPool, c *x509.Certificate) { wPoolG[p] = append(wPoolG[p], wCertID[c]) }

//verif:model (*encoding/base64.Encoding).EncodeToString
func mEncodeToString(e *base64.Encoding, b []byte) string { return wPad("B64:" + string(b)) }

//verif:model (*encoding/base64.Encoding).DecodeString
func mDecodeString(e *base64.Encoding, s string) ([]byte, error) {
	if strings.HasPrefix(s, "B64:") {
		t := strings.TrimPrefix(s, "B64:")
		for strings.HasSuffix(t, "=") {
			t = strings.TrimSuffix(t, "=")
		}
		return []byte(t), nil
	}
	return nil, errors.New("illegal base64 data")
}

//verif:model crypto/x509.ParseCertificate
func mParseCertificate(der []byte) (*x509.Certificate, error) {
	s := string(der)
	if strings.HasPrefix(s, "DER:") {
		c := new(x509.Certificate)
		wCertID[c] = strings.TrimPrefix(s, "DER:")
		return c, nil
	}
	return nil, errors.New("x509: malformed certificate")
}

type wTLSConnGhost struct {
	raw *wConn
	cfg *tls.Config
}

var wTLSConnG = map[*tls.Conn]*wTLSConnGhost{}

//verif:model crypto/tls.Client
func mTLSClient(conn net.Conn, cfg *tls.Config) *tls.Conn {
	t := new(tls.Conn)
	raw := wRaw(conn)
	raw.sec, raw.secSet = cfg, true
	wTLSConnG[t] = &wTLSConnGhost{raw: raw, cfg: cfg}
	return t
}

//verif:model (*crypto/tls.Conn).Close
func mTLSConnClose(t *tls.Conn) error { return wTLSConnG[t].raw.Close() }

type wTLSListener struct {
	inner net.Listener
	cfg   *tls.Config
}

//verif:model crypto/tls.NewListener
func mTLSNewListener(inner net.Listener, cfg *tls.Config) net.Listener {
	return &wTLSListener{inner: inner, cfg: cfg}
}
func (l *wTLSListener) Accept() (net.Conn, error) {
	c, err := l.inner.Accept()
	if err != nil {
		return nil, err
	}
	t := new(tls.Conn)
	raw := wRaw(c)
	raw.sec, raw.secSet = l.cfg, true
	wTLSConnG[t] = &wTLSConnGhost{raw: raw, cfg: l.cfg}
	return t, nil
}
func (l *wTLSListener) Close() error   { return l.inner.Close() }
func (l *wTLSListener) Addr() net.Addr { return l.inner.Addr() }

// wRaw finds the modelled connection under TLS wrappers
func wRaw(c any) *wConn {
	switch x := c.(type) {
	case *wConn:
		return x
	case *tls.Conn:
		return wTLSConnG[x].raw
	}
	return nil
}

func wInPool(p *x509.CertPool, id string) bool {
	if p == nil {
		return false
	}
	for _, x := range wPoolG[p] {
		if x == id {
			return true
		}
	}
	return false
}

func wLeaf(cfg *tls.Config) (string, bool) {
	if cfg == nil || len(cfg.Certificates) == 0 || len(cfg.Certificates[0].Certificate) == 0 {
		return "", false
	}
	return wCertIdent(cfg.Certificates[0].Certificate[0]), true
}

// wHandshake: does a connection between a client end speaking cc and a server end speaking sc get established?
func wHandshake(cc, sc *tls.Config) error {
	if cc == nil && sc == nil {
		return nil
	}
	if cc == nil || sc == nil {
		return errors.New("tls: first record does not look like a TLS handshake / EOF")
	}
	sid, sok := wLeaf(sc)
	if !sok {
		return errors.New("tls: no certificates configured")
	}
	if !cc.InsecureSkipVerify && !wInPool(cc.RootCAs, sid) {
		return errors.New("x509: certificate signed by unknown authority")
	}
	cid, cok := wLeaf(cc)
	switch sc.ClientAuth {
	case tls.RequireAndVerifyClientCert:
		if !cok {
			return errors.New("tls: client didn't provide a certificate")
		}
		if !wInPool(sc.ClientCAs, cid) {
			return errors.New("tls: bad certificate")
		}
	case tls.RequireAnyClientCert:
		if !cok {
			return errors.New("tls: client didn't provide a certificate")
		}
	case tls.VerifyClientCertIfGiven:
		if cok && !wInPool(sc.ClientCAs, cid) {
			return errors.New("tls: bad certificate")
		}
	}
	return nil
}

// wConnHandshake: the outcome for a modelled connection, once both ends have declared how they speak
func wConnHandshake(c *wConn) error {
	cl, sv := c, c.peer
	if !c.client {
		cl, sv = c.peer, c
	}
	return wHandshake(cl.sec, sv.sec)
}

var wTraceN int
var wTraceOn bool

func wTrace(s string) {
	if wTraceOn {
		wTraceN++
		vRecord(fmt.Sprintf("trace-%02d", wTraceN), fmt.Sprintf("t=%d proc=%d %s", vNow(), vCurProc(), s))
	}
}

//verif:model os/user.LookupGroup
func mLookupGroup(name string) (*user.Group, error) { return &user.Group{Gid: "1000", Name: name}, nil }

//verif:model os/user.LookupGroupId
func mLookupGroupId(gid string) (*user.Group, error) { return &user.Group{Gid: gid, Name: "g" + gid}, nil }

//verif:model os.Chown
func mChown(name string, uid, gid int) error { return nil }

//verif:model os.Getuid
func mGetuid() int { return 1000 }

//verif:model os.Getgid
func mGetgid() int { return 1000 }

//verif:model os.Open
func mOsOpen(name string) (*os.File, error) {
	// regular files of the ghost file system, by the exact path string handed to the kernel (the kernel resolves
	// symbolic links before "..", so "/d/link/../wplugin" and the lexically cleaned "/d/wplugin" are different entries)
	d, ok := wRegular[name]
	if !ok {
		return nil, &os.PathError{Op: "open", Path: name, Err: os.ErrNotExist}
	}
	f := new(os.File)
	wOpenedDigest[f] = d
	return f, nil
}

var wRegular = map[string][]byte{"/bin/wplugin": nil} // path -> digest of the file's content (nil: not modelled)
var wOpenedDigest = map[*os.File][]byte{}
