package plugin

import (
	"encoding/binary"
	"errors"
	"io"
	"net"
	"net/rpc"
	"strings"
	"time"

	"github.com/hashicorp/yamux"
)


// ---------- yamux: two paired sessions, streams carrying uint32 messages ----------
type vConn struct {
	peer    *vConn
	acceptQ chan *yamux.Stream // streams opened by the peer, waiting for this end's Accept
}

func (*vConn) Read(b []byte) (int, error)  { return 0, io.EOF }
func (*vConn) Write(b []byte) (int, error) { return len(b), nil }
func (*vConn) Close() error                { return nil }

type sessGhost struct{ conn *vConn }
type strmGhost struct {
	in      chan uint32
	peer    *yamux.Stream
	aborted bool // opened by the peer and dropped before the ID was written
	rdl     int64 // read / write deadline: 0 none, else the clock instant + 1
	wdl     int64
}

var errStreamTimeout = errors.New("i/o deadline reached")

func dlOf(t time.Time) int64 { return vTimeNs(t) + 1 }

// a deadline that has passed fails the operation (yamux checks the write deadline only when the send window is
// exhausted: the model takes every write for one that large)
func dlPassed(dl int64) bool { return dl != 0 && vNow() >= dl }

//verif:model (*github.com/hashicorp/yamux.Stream).SetDeadline
func mStreamSetDeadline(s *yamux.Stream, t time.Time) error {
	strmG[s].rdl, strmG[s].wdl = dlOf(t), dlOf(t)
	return nil
}

//verif:model (*github.com/hashicorp/yamux.Stream).SetReadDeadline
func mStreamSetReadDeadline(s *yamux.Stream, t time.Time) error { strmG[s].rdl = dlOf(t); return nil }

//verif:model (*github.com/hashicorp/yamux.Stream).SetWriteDeadline
func mStreamSetWriteDeadline(s *yamux.Stream, t time.Time) error { strmG[s].wdl = dlOf(t); return nil }

var sessG = map[*yamux.Session]*sessGhost{}
var strmG = map[*yamux.Stream]*strmGhost{}

func newSess(conn io.ReadWriteCloser) *yamux.Session {
	s := new(yamux.Session)
	c := conn.(*vConn)
	sessG[s] = &sessGhost{conn: c}
	return s
}

//verif:model github.com/hashicorp/yamux.Client
func mYClient(conn io.ReadWriteCloser, c *yamux.Config) (*yamux.Session, error) { return newSess(conn), nil }

//verif:model github.com/hashicorp/yamux.Server
func mYServer(conn io.ReadWriteCloser, c *yamux.Config) (*yamux.Session, error) { return newSess(conn), nil }

func openStream(s *yamux.Session) *yamux.Stream {
	near, far := new(yamux.Stream), new(yamux.Stream)
	strmG[near] = &strmGhost{in: make(chan uint32, 4), peer: far}
	strmG[far] = &strmGhost{in: make(chan uint32, 4), peer: near}
	sessG[s].conn.peer.acceptQ <- far
	return near
}

//verif:model (*github.com/hashicorp/yamux.Session).Open
func mOpen(s *yamux.Session) (net.Conn, error) { return openStream(s), nil }

//verif:model (*github.com/hashicorp/yamux.Session).OpenStream
func mOpenStream(s *yamux.Session) (*yamux.Stream, error) { return openStream(s), nil }

//verif:model (*github.com/hashicorp/yamux.Session).Accept
func mAccept(s *yamux.Session) (net.Conn, error) { return <-sessG[s].conn.acceptQ, nil }

//verif:model (*github.com/hashicorp/yamux.Session).AcceptStream
func mAcceptStream(s *yamux.Session) (*yamux.Stream, error) { return <-sessG[s].conn.acceptQ, nil }

//verif:model (*github.com/hashicorp/yamux.Stream).Close
func mStreamClose(s *yamux.Stream) error { return nil }

func vStreamReadU32(r io.Reader) (uint32, error) {
	g := strmG[r.(*yamux.Stream)]
	if g.aborted {
		return 0, io.ErrUnexpectedEOF
	}
	if dlPassed(g.rdl) {
		return 0, errStreamTimeout
	}
	return <-g.in, nil
}

// openAborted: the peer of s sees a new stream that ends before its ID arrives
func openAborted(s *yamux.Session) {
	near, far := new(yamux.Stream), new(yamux.Stream)
	strmG[near] = &strmGhost{in: make(chan uint32, 4), peer: far}
	strmG[far] = &strmGhost{in: make(chan uint32, 4), peer: near, aborted: true}
	sessG[s].conn.peer.acceptQ <- far
}
func vStreamWriteU32(w io.Writer, v uint32) error {
	if dlPassed(strmG[w.(*yamux.Stream)].wdl) {
		return errStreamTimeout
	}
	strmG[strmG[w.(*yamux.Stream)].peer].in <- v
	return nil
}

var never = make(chan struct{})

//verif:model io.Copy
func mCopy(dst io.Writer, src io.Reader) (int64, error) { vDaemon(); <-never; return 0, nil }

// ---------- net/rpc: a call runs the real receiver method registered on the peer of the connection ----------
type rpcSrvGhost struct{ rcvrs map[string]any }

var rpcSrvG = map[*rpc.Server]*rpcSrvGhost{}
var srvOfStream = map[*yamux.Stream]*rpc.Server{}
var connOfClient = map[*rpc.Client]*yamux.Stream{}

//verif:model net/rpc.NewServer
func mNewServer() *rpc.Server {
	s := new(rpc.Server)
	rpcSrvG[s] = &rpcSrvGhost{rcvrs: map[string]any{}}
	return s
}

//verif:model (*net/rpc.Server).RegisterName
func mRegisterName(s *rpc.Server, name string, rcvr any) error { rpcSrvG[s].rcvrs[name] = rcvr; return nil }

//verif:model (*net/rpc.Server).ServeConn
func mServeConn(s *rpc.Server, conn io.ReadWriteCloser) {
	srvOfStream[conn.(*yamux.Stream)] = s
	vDaemon()
	<-never
}

//verif:model net/rpc.NewClient
func mNewClient(conn io.ReadWriteCloser) *rpc.Client {
	c := new(rpc.Client)
	connOfClient[c] = conn.(*yamux.Stream)
	return c
}

//verif:model (*net/rpc.Client).Call
func mCall(c *rpc.Client, serviceMethod string, args any, reply any) error {
	if g := strmG[connOfClient[c]]; dlPassed(g.wdl) || dlPassed(g.rdl) {
		return errStreamTimeout // the request cannot be written, or the reply cannot be read
	}
	srv := srvOfStream[strmG[connOfClient[c]].peer]
	if srv == nil {
		return errors.New("rpc: connection is not being served")
	}
	svc, method, _ := strings.Cut(serviceMethod, ".")
	rcvr, ok := rpcSrvG[srv].rcvrs[svc]
	if !ok {
		return errors.New("rpc: can't find service " + serviceMethod)
	}
	return vCallMethod(rcvr, method, args, reply)
}

// ---------- the plugin under dispense ----------
type vImpl struct{ tag int }

func (i *vImpl) Whoami(args int, reply *int) error { *reply = i.tag; return nil }

type vPlug struct{ made int }

func (p *vPlug) Server(b *MuxBroker) (interface{}, error) { sbroker = b; p.made++; return &vImpl{tag: p.made}, nil }
func (p *vPlug) Client(b *MuxBroker, c *rpc.Client) (interface{}, error) { return c, nil }

const sec = int64(1000000000)

func harnessC06() {
	a, b := &vConn{acceptQ: make(chan *yamux.Stream, 16)}, &vConn{acceptQ: make(chan *yamux.Stream, 16)}
	a.peer, b.peer = b, a
	ps := map[string]Plugin{"test": &vPlug{}}
	server := &RPCServer{Plugins: ps, Stdout: &vConn{}, Stderr: &vConn{}}
	go func() { vDaemon(); server.ServeConn(b) }()
	client, err := NewRPCClient(a, ps)
	vAssume(err == nil)
	vSleepUntil(1)

	// (1) two dispenses: each client reaches the implementation created for it
	r1, e1 := client.Dispense("test")
	r2, e2 := client.Dispense("test")
	vAssert(e1 == nil && e2 == nil, "C06: Dispense succeeds")
	var t1, t2 int
	vAssert(r1.(*rpc.Client).Call("Plugin.Whoami", 0, &t1) == nil, "C06: call on the first dispensed client succeeds")
	vAssert(r2.(*rpc.Client).Call("Plugin.Whoami", 0, &t2) == nil, "C06: call on the second dispensed client succeeds")
	vAssert(t1 == 1 && t2 == 2, "C06: each Dispense reaches the server object created for that dispense")
	_, e3 := client.Dispense("nope")
	vAssert(e3 != nil, "C14: dispensing an unknown plugin name is an error")
	vCover("dispensed")
	// ... and keeps working: a call made any time later, well past the broker's five-second pending window
	late := vNondetTime("late")
	vAssume(late >= 6*sec && late < 9*sec)
	vSleepUntil(late)
	vAssert(r1.(*rpc.Client).Call("Plugin.Whoami", 0, &t1) == nil && t1 == 1, "C06: a dispensed client keeps working for as long as the connection is up")

	// (2) raw broker: two distinct IDs, dialled from either side, accept and dial within the window in either order
	id1, id2 := vNondetU32("id1"), vNondetU32("id2")
	vAssume(id1 != id2 && id1 > 100 && id2 > 100)
	gap := vNondetTime("gap")
	vAssume(gap >= 0 && gap < 5*sec)
	base := int64(10 * sec)
	tA, tD := base, base+gap
	if vChoice(2) == 1 {
		tA, tD = base+gap, base
	}
	var c1, c2, d1, d2 net.Conn
	var ea1, ea2, ed1, ed2 error
	done := make(chan struct{}, 4)
	go func() { vSleepUntil(tA); c1, ea1 = client.broker.Accept(id1); done <- struct{}{} }()
	go func() { vSleepUntil(tA); c2, ea2 = client.broker.Accept(id2); done <- struct{}{} }()
	sb := sbroker
	go func() { vSleepUntil(tD); d2, ed2 = sb.Dial(id2); done <- struct{}{} }()
	go func() { vSleepUntil(tD); d1, ed1 = sb.Dial(id1); done <- struct{}{} }()
	for i := 0; i < 4; i++ {
		<-done
	}
	vAssert(ea1 == nil && ea2 == nil && ed1 == nil && ed2 == nil, "C06: accept and dial within the pending window both succeed")
	vAssert(strmG[d1.(*yamux.Stream)].peer == c1.(*yamux.Stream), "C06: Dial(id1) is connected to Accept(id1)")
	vAssert(strmG[d2.(*yamux.Stream)].peer == c2.(*yamux.Stream), "C06: Dial(id2) is connected to Accept(id2)")
	vCover("routed")
	// data written on the dialled end any time later arrives at the accepted end
	vSleepUntil(base + gap + 6*sec)
	vAssert(binary.Write(d1, binary.LittleEndian, uint32(7)) == nil, "C06: a brokered connection carries data written long after it was established")
	var got uint32
	vAssert(binary.Read(c1, binary.LittleEndian, &got) == nil && got == 7, "C06: data written on the connection dialled for id1 arrives on the connection accepted for id1")
	vDone()
}

var sbroker *MuxBroker // the plugin-side broker, as handed to Plugin.Server by the real dispenser

// harnessC06afterTimeout: the same routing after an unrelated Accept, on either end, found no dial and timed out.
func harnessC06afterTimeout() {
	a, b := &vConn{acceptQ: make(chan *yamux.Stream, 16)}, &vConn{acceptQ: make(chan *yamux.Stream, 16)}
	a.peer, b.peer = b, a
	ps := map[string]Plugin{"test": &vPlug{}}
	server := &RPCServer{Plugins: ps, Stdout: &vConn{}, Stderr: &vConn{}}
	go func() { vDaemon(); server.ServeConn(b) }()
	client, err := NewRPCClient(a, ps)
	vAssume(err == nil)
	vSleepUntil(1)
	r1, e1 := client.Dispense("test")
	vAssert(e1 == nil, "C06: Dispense succeeds")
	sb := sbroker

	lonely := client.broker
	if vChoice(2) == 1 {
		lonely = sb
		vCover("lonely-on-plugin")
	} else {
		vCover("lonely-on-host")
	}
	id0 := vNondetU32("id0")
	vAssume(id0 > 100)
	var e0 error
	back := make(chan struct{}, 1)
	go func() { _, e0 = lonely.Accept(id0); back <- struct{}{} }()
	vSleepUntil(8 * sec)
	<-back
	vAssert(e0 != nil, "C09: an Accept nobody dials returns an error")
	vCover("timed-out")

	if vChoice(2) == 1 {
		// an abandoned dial: one end opened a stream and dropped it before writing the ID (MuxBroker.Dial does this when
		// its write fails); the other end's dispatcher discards that stream and carries on
		vCover("abandoned-dial")
		if vChoice(2) == 1 {
			openAborted(client.broker.session)
		} else {
			openAborted(sb.session)
		}
		vSleepUntil(vNow() + sec)
	}
	// afterwards: a Dispense and a raw pair on another ID, in either direction, accept or dial first
	r2, e2 := client.Dispense("test")
	vAssert(e2 == nil, "C06: Dispense succeeds after an unrelated Accept timed out")
	var t1, t2 int
	vAssert(r1.(*rpc.Client).Call("Plugin.Whoami", 0, &t1) == nil && r2.(*rpc.Client).Call("Plugin.Whoami", 0, &t2) == nil, "C06: calls on the dispensed clients succeed")
	vAssert(t1 == 1 && t2 == 2, "C06: each Dispense reaches the server object created for that dispense")
	id1 := vNondetU32("id1")
	vAssume(id1 > 100 && id1 != id0)
	acc, dia := client.broker, sb
	if vChoice(2) == 1 {
		acc, dia = sb, client.broker
	}
	gap := vNondetTime("gap")
	vAssume(gap >= 0 && gap < 5*sec)
	tA, tD := 10*sec, 10*sec+gap
	if vChoice(2) == 1 {
		tA, tD = 10*sec+gap, 10*sec
	}
	var c1, d1 net.Conn
	var ea, ed error
	done := make(chan struct{}, 2)
	go func() { vSleepUntil(tA); c1, ea = acc.Accept(id1); done <- struct{}{} }()
	go func() { vSleepUntil(tD); d1, ed = dia.Dial(id1); done <- struct{}{} }()
	<-done
	<-done
	vAssert(ea == nil && ed == nil, "C06: accept and dial within the pending window both succeed after an unrelated Accept timed out")
	vAssert(strmG[d1.(*yamux.Stream)].peer == c1.(*yamux.Stream), "C06: Dial(id1) is connected to Accept(id1)")
	vCover("routed")
	vDone()
}
