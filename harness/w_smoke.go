package plugin

import (
	"os/exec"
	"time"

	hclog "github.com/hashicorp/go-hclog"
	"github.com/hashicorp/go-plugin/runner"
)

// Smoke test of the world model: host and plugin composed, both protocols, dispense, call, kill.
func harnessWorldSmoke() {
	grpcMode := vChoice(2) == 1
	pl := &wPlug{}
	serve := &ServeConfig{HandshakeConfig: wHandshake0, Plugins: PluginSet{"test": pl}, Logger: newWLogger()}
	if grpcMode {
		serve.GRPCServer = wNewGRPCServer
	}
	p := newWProc(func() { Serve(serve) })
	cfg := &ClientConfig{
		HandshakeConfig:  wHandshake0,
		Plugins:          PluginSet{"test": &wPlug{}},
		AllowedProtocols: []Protocol{ProtocolNetRPC, ProtocolGRPC},
		Logger:           newWLogger(),
		StartTimeout:     60 * time.Second,
		RunnerFunc: func(l hclog.Logger, cmd *exec.Cmd, tmp string) (runner.Runner, error) {
			for _, kv := range cmd.Env {
				k, v, _ := wCut(kv)
				vSetenvProc(p.id, k, v)
			}
			return &wRunner{p: p}, nil
		},
	}
	c := NewClient(cfg)
	cp, err := c.Client()
	vAssert(err == nil, "smoke: Client() succeeds")
	raw, err := cp.Dispense("test")
	vAssert(err == nil, "smoke: Dispense succeeds")
	tag, err := raw.(wStub).Whoami()
	vAssert(err == nil, "smoke: call succeeds")
	vAssert(tag == 1, "smoke: call reaches the server object")
	vAssert(cp.Ping() == nil, "smoke: ping succeeds")
	vCover("called")
	c.Kill()
	vAssert(p.isDead, "smoke: plugin dead after Kill")
	vAssert(p.killed == 0, "smoke: graceful")
	vAssert(c.Exited(), "smoke: exited")
	vCover("killed")
	vDone()
}
