package plugin

import (
	"bufio"
	"context"
	"crypto/tls"
	"crypto/x509"
	"encoding/base64"
	"errors"
	"io"
	"log"
	"net"
	"os/exec"
	"strconv"
	"strings"
	"time"

	hclog "github.com/hashicorp/go-hclog"
	"github.com/hashicorp/go-plugin/runner"
)


// ---------------- process / runner model ----------------
type vProc struct {
	mode    int // 0 line at tLine, 1 stdout EOF at tLine while alive, 2 silent, 3 dies at tLine before output
	line    string
	tLine   int64
	dead    chan struct{}
	isDead  bool
	started int
	killed  int
}

func (p *vProc) die() {
	if !p.isDead {
		p.isDead = true
		close(p.dead)
	}
}

type vPipe struct{ p *vProc }

func (*vPipe) Read(b []byte) (int, error) { return 0, io.EOF }
func (*vPipe) Close() error               { return nil }

type vRunner struct{ p *vProc }

func (r *vRunner) Start(ctx context.Context) error {
	r.p.started++
	if r.p.mode == 3 {
		go func() { vDaemon(); vSleepUntil(r.p.tLine); r.p.die() }()
	}
	return nil
}
func (r *vRunner) Diagnose(ctx context.Context) string { return "" }
func (r *vRunner) Stdout() io.ReadCloser               { return &vPipe{r.p} }
func (r *vRunner) Stderr() io.ReadCloser               { return &vPipe{r.p} }
func (r *vRunner) Name() string                        { return "vplugin" }
func (r *vRunner) Wait(ctx context.Context) error      { <-r.p.dead; return nil }
func (r *vRunner) Kill(ctx context.Context) error      { r.p.killed++; r.p.die(); return nil }
func (r *vRunner) ID() string                          { return "v1" }
func (r *vRunner) PluginToHost(n, a string) (string, string, error) { return n, a, nil }
func (r *vRunner) HostToPlugin(n, a string) (string, string, error) { return n, a, nil }

// ---------------- bufio models ----------------
type scanGhost struct {
	p         *vProc
	delivered bool
	text      string
}

var scanG = map[*bufio.Scanner]*scanGhost{}
var readerG = map[*bufio.Reader]*vProc{}

//verif:model bufio.NewScanner
func mNewScanner(r io.Reader) *bufio.Scanner {
	s := new(bufio.Scanner)
	scanG[s] = &scanGhost{p: r.(*vPipe).p}
	return s
}

//verif:model (*bufio.Scanner).Scan
func mScan(s *bufio.Scanner) bool {
	g := scanG[s]
	if !g.delivered {
		g.delivered = true
		switch g.p.mode {
		case 0:
			vSleepUntil(g.p.tLine)
			g.text = g.p.line
			return true
		case 1:
			vSleepUntil(g.p.tLine)
			return false
		}
	}
	<-g.p.dead
	return false
}

//verif:model (*bufio.Scanner).Text
func mText(s *bufio.Scanner) string { return scanG[s].text }

//verif:model (*bufio.Scanner).Err
func mErr(s *bufio.Scanner) error { return nil }

//verif:model bufio.NewReaderSize
func mNewReaderSize(r io.Reader, n int) *bufio.Reader {
	b := new(bufio.Reader)
	readerG[b] = r.(*vPipe).p
	return b
}

//verif:model (*bufio.Reader).ReadLine
func mReadLine(b *bufio.Reader) ([]byte, bool, error) {
	<-readerG[b].dead
	return nil, false, io.EOF
}

// ---------------- context model ----------------
type vCtx struct {
	done   chan struct{}
	closed bool
}

func (c *vCtx) Deadline() (time.Time, bool) { return time.Time{}, false }
func (c *vCtx) Done() <-chan struct{}       { return c.done }
func (c *vCtx) Err() error {
	if c.closed {
		return context.Canceled
	}
	return nil
}
func (c *vCtx) Value(k any) any { return nil }

//verif:model context.Background
func mBackground() context.Context { return &vCtx{} }

//verif:model context.WithCancel
func mWithCancel(parent context.Context) (context.Context, context.CancelFunc) {
	c := &vCtx{done: make(chan struct{})}
	return c, func() {
		if !c.closed {
			c.closed = true
			close(c.done)
		}
	}
}

//verif:model context.WithTimeout
func mWithTimeout(parent context.Context, d time.Duration) (context.Context, context.CancelFunc) {
	return mWithCancel(parent)
}

// ---------------- os / net / crypto models ----------------
var hostEnv []string

//verif:model os.Environ
func mEnviron() []string { return hostEnv }

//verif:model github.com/hashicorp/go-plugin.generateCert
func mGenerateCert() ([]byte, []byte, error) { return []byte("CLIENTCERTPEM"), []byte("KEYPEM"), nil }

//verif:model crypto/tls.X509KeyPair
func mX509KeyPair(c, k []byte) (tls.Certificate, error) { return tls.Certificate{}, nil }

//verif:model os.MkdirTemp
func mMkdirTemp(dir, pattern string) (string, error) { return "/tmp/plugin-dir-v", nil }

//verif:model os.RemoveAll
func mRemoveAll(path string) error { return nil }

//verif:model net.ResolveTCPAddr
func mResolveTCP(network, address string) (*net.TCPAddr, error) {
	if vNondetOK("resolve_tcp", address) {
		return &net.TCPAddr{Port: 1}, nil
	}
	return nil, errors.New("resolve tcp")
}

//verif:model net.ResolveUnixAddr
func mResolveUnix(network, address string) (*net.UnixAddr, error) {
	return &net.UnixAddr{Name: address, Net: "unix"}, nil // never fails for network "unix" (net/unixsock.go)
}

var lastB64 string

//verif:model crypto/x509.NewCertPool
func mNewCertPool() *x509.CertPool { return new(x509.CertPool) }

//verif:model (*encoding/base64.Encoding).DecodeString
func mDecodeString(e *base64.Encoding, s string) ([]byte, error) {
	if vNondetOK("b64", s) {
		lastB64 = s
		return []byte{1}, nil
	}
	return nil, errors.New("b64")
}

//verif:model crypto/x509.ParseCertificate
func mParseCertificate(der []byte) (*x509.Certificate, error) {
	if vNondetOK("x509", lastB64) {
		return new(x509.Certificate), nil
	}
	return nil, errors.New("x509")
}

//verif:model (*crypto/x509.CertPool).AddCert
func mAddCert(p *x509.CertPool, c *x509.Certificate) {}

// ---------------- logger ----------------
type vLogger struct{}

func (vLogger) Log(level hclog.Level, msg string, args ...interface{}) {}
func (vLogger) Trace(msg string, args ...interface{})                   {}
func (vLogger) Debug(msg string, args ...interface{})                   {}
func (vLogger) Info(msg string, args ...interface{})                    {}
func (vLogger) Warn(msg string, args ...interface{})                    {}
func (vLogger) Error(msg string, args ...interface{})                   {}
func (vLogger) IsTrace() bool                                           { return false }
func (vLogger) IsDebug() bool                                           { return false }
func (vLogger) IsInfo() bool                                            { return false }
func (vLogger) IsWarn() bool                                            { return false }
func (vLogger) IsError() bool                                           { return false }
func (vLogger) ImpliedArgs() []interface{}                              { return nil }
func (l vLogger) With(args ...interface{}) hclog.Logger                 { return l }
func (vLogger) Name() string                                            { return "v" }
func (l vLogger) Named(name string) hclog.Logger                        { return l }
func (l vLogger) ResetNamed(name string) hclog.Logger                   { return l }
func (vLogger) SetLevel(level hclog.Level)                              {}
func (vLogger) StandardLogger(o *hclog.StandardLoggerOptions) *log.Logger { return nil }
func (vLogger) StandardWriter(o *hclog.StandardLoggerOptions) io.Writer { return nil }


// effective value of a variable in an environment list: the last duplicate wins (os/exec dedups that way)
func effective(env []string, key string) (string, bool) {
	for i := len(env) - 1; i >= 0; i-- {
		k, v, ok := strings.Cut(env[i], "=")
		if ok && k == key {
			return v, true
		}
	}
	return "", false
}

func harnessC17() {
	hk, hv := vNondetStr("hostkey", "="), vNondetStr("hostval", "")
	hk2, hv2 := vNondetStr("hostkey2", "="), vNondetStr("hostval2", "")
	hostEnv = []string{hk + "=" + hv, hk2 + "=" + hv2} // the host's own environment: two arbitrary adjacent variables
	autoMTLS := vChoice(2) == 1
	mux := vChoice(2) == 1
	skip := vChoice(2) == 1
	var got []string
	p := &vProc{mode: 2, dead: make(chan struct{})}
	cfg := &ClientConfig{
		HandshakeConfig:     HandshakeConfig{ProtocolVersion: 1, MagicCookieKey: "K", MagicCookieValue: "V"},
		Plugins:             PluginSet{},
		AutoMTLS:            autoMTLS,
		GRPCBrokerMultiplex: mux,
		SkipHostEnv:         skip,
		Logger:              vLogger{},
		StartTimeout:        time.Second,
		RunnerFunc: func(l hclog.Logger, cmd *exec.Cmd, tmp string) (runner.Runner, error) {
			got = cmd.Env
			return &vRunner{p}, nil
		},
	}
	c := NewClient(cfg)
	c.Start() // silent plugin: times out; the environment was already handed over
	vAssert(got != nil, "C17: the runner received an environment")

	v, ok := effective(got, "K")
	vAssert(ok && v == "V", "C17: the magic cookie is passed")
	cert, hasCert := effective(got, "PLUGIN_CLIENT_CERT")
	if autoMTLS {
		vCover("automtls")
		vAssert(hasCert && cert == "CLIENTCERTPEM", "C17: with AutoMTLS the child gets this client's certificate")
	} else {
		vCover("no-automtls")
		vAssert(!hasCert, "C17: without AutoMTLS the child sees no client certificate variable")
	}
	_, hasMux := effective(got, "PLUGIN_MULTIPLEX_GRPC")
	vAssert(hasMux == mux, "C17: the multiplexing variable is present exactly when multiplexing is requested")
	if skip {
		_, leaked := effective(got, hk)
		vAssert(!leaked || hk == "K" || hk == "PLUGIN_MIN_PORT" || hk == "PLUGIN_MAX_PORT" || hk == "PLUGIN_PROTOCOL_VERSIONS" || hk == "PLUGIN_CLIENT_CERT" || hk == "PLUGIN_MULTIPLEX_GRPC" || hk == "PLUGIN_UNIX_SOCKET_DIR" || hk == "PLUGIN_UNIX_SOCKET_GROUP",
			"C17: with SkipHostEnv no host variable is passed")
		_, leaked2 := effective(got, hk2)
		vAssert(!leaked2 || hk2 == "K" || hk2 == "PLUGIN_MIN_PORT" || hk2 == "PLUGIN_MAX_PORT" || hk2 == "PLUGIN_PROTOCOL_VERSIONS" || hk2 == "PLUGIN_CLIENT_CERT" || hk2 == "PLUGIN_MULTIPLEX_GRPC" || hk2 == "PLUGIN_UNIX_SOCKET_DIR" || hk2 == "PLUGIN_UNIX_SOCKET_GROUP",
			"C17: with SkipHostEnv no host variable is passed")
	}
	vDone()
}

// C19: bounded call sequences; count launches
// The scripted plugin of this run never listens: connecting for the graceful shutdown fails and Kill takes its
// force path (the graceful path is C04's subject).
//verif:model net.Dial
func mNetDial(network, address string) (net.Conn, error) { return nil, errors.New("connect: connection refused") }

//verif:model (*net.TCPAddr).String
func mTCPAddrString(a *net.TCPAddr) string { return "127.0.0.1:1" }

//verif:model (*net.TCPAddr).Network
func mTCPAddrNetwork(a *net.TCPAddr) string { return "tcp" }

// a runner whose Start fails (the launcher could not start the plugin)
type vFailStartRunner struct{ *vRunner }

func (r *vFailStartRunner) Start(ctx context.Context) error { return errors.New("runner: cannot start the plugin") }

func harnessC19() {
	launches := 0
	first := vChoice(4) // 0: the plugin prints garbage (start fails), 1: a valid line, 2: RunnerFunc returns an error, 3: the runner's Start returns an error
	cfg := &ClientConfig{
		HandshakeConfig: HandshakeConfig{ProtocolVersion: 1, MagicCookieKey: "K", MagicCookieValue: "V"},
		Plugins:         PluginSet{},
		Logger:          vLogger{},
		StartTimeout:    time.Second,
		RunnerFunc: func(l hclog.Logger, cmd *exec.Cmd, tmp string) (runner.Runner, error) {
			launches++
			line := "garbage"
			if first == 1 {
				line = "1|1|tcp|127.0.0.1:1234"
			}
			r := &vRunner{&vProc{mode: 0, line: line, dead: make(chan struct{})}}
			switch first {
			case 2:
				vCover("runnerfunc-fails")
				return nil, errors.New("runner: cannot be created")
			case 3:
				vCover("runner-start-fails")
				return &vFailStartRunner{r}, nil
			}
			return r, nil
		},
	}
	c := NewClient(cfg)
	var addr0 net.Addr
	killed := false
	for step := 0; step < 3; step++ {
		switch vChoice(4) {
		case 0:
			a, err := c.Start()
			if err == nil {
				if addr0 == nil {
					addr0 = a
				}
				vAssert(a == addr0, "C19: every successful Start returns the same address")
			}
		case 1:
			c.Protocol()
		case 2:
			c.ReattachConfig()
		case 3:
			c.Kill()
			killed = true
			n := launches
			c.Start()
			vAssert(!killed || launches == n || n == 0, "C19: no launch after Kill")
		}
		vAssert(launches <= 1, "C19: the plugin is launched at most once")
	}
	vCover("sequence-done")
	vDone()
}

var _ = strconv.Itoa
var _ = x509.NewCertPool
var _ = base64.StdEncoding
var _ = errors.New
var _ = log.Printf
