package plugin

// World model, part 5: the plugin process (real Serve) and helpers to compose it with a host (real Client).

import (
	"context"
	"fmt"
	"net/rpc"
	"os"
	"strings"

	"google.golang.org/grpc"
)

//verif:model os.Exit
func mExit(code int) {
	p := wCurProc()
	if p == nil {
		vAssert(false, "os.Exit called by the host process")
		vExitThread()
	}
	p.exit(code)
}

// fmt.Printf: before Serve swaps os.Stdout the plugin's real stdout is what the host scans line by line; afterwards
// os.Stdout is the write end of the stdio pipe.
//
//verif:model fmt.Printf
func mPrintf(format string, a ...any) (int, error) {
	s := fmt.Sprintf(format, a...)
	p := wCurProc()
	if p == nil {
		return 0, nil
	}
	if pipe := wFilePipe[os.Stdout]; pipe != nil && os.Stdout != nil {
		pipe.write(s)
		return len(s), nil
	}
	wEvents = append(wEvents, "print")
	wStdoutLines = append(wStdoutLines, s)
	p.stdout.write(strings.TrimSuffix(s, "\n"))
	return len(s), nil
}

var wStdoutLines []string // what go-plugin printed to the plugin's REAL stdout

// a write that reaches the current process's real stdout through its original file although os.Stdout was redirected
func wWriteRealStdout(s string) {
	if p := wCurProc(); p != nil {
		wEvents = append(wEvents, "print")
		wStdoutLines = append(wStdoutLines, s)
		p.stdout.write(strings.TrimSuffix(s, "\n"))
	}
}

// what the plugin author's code does to write to its stdout / stderr after serving began
func wPluginWrite(toStderr bool, s string) {
	f := os.Stdout
	if toStderr {
		f = os.Stderr
	}
	if pipe := wFilePipe[f]; pipe != nil {
		pipe.write(s)
	}
}

// ---------------------------------------------------------------------------------------------- the test plugin
// One plugin type usable over both protocols. The server object answers with the tag it was created with, so a client
// can tell which server object (which Dispense / which brokered server) it reached.
type wImpl struct {
	tag    int
	mb     *MuxBroker
	gb     *GRPCBroker
	delay  int64 // a call takes this long on the symbolic clock
	inCall int
}

func (i *wImpl) Whoami(args int, reply *int) error {
	i.inCall++
	if i.delay > 0 {
		vSleepUntil(vNow() + i.delay)
	}
	*reply = i.tag
	return nil
}

type wPlug struct {
	made  int
	delay int64
	impls []*wImpl
}

func (p *wPlug) Server(b *MuxBroker) (interface{}, error) {
	p.made++
	i := &wImpl{tag: p.made, mb: b, delay: p.delay}
	p.impls = append(p.impls, i)
	return i, nil
}
func (p *wPlug) Client(b *MuxBroker, c *rpc.Client) (interface{}, error) {
	return &wRPCStub{c: c, b: b}, nil
}
func (p *wPlug) GRPCServer(b *GRPCBroker, s *grpc.Server) error {
	p.made++
	i := &wImpl{tag: p.made, gb: b, delay: p.delay}
	p.impls = append(p.impls, i)
	wRegisterUser(s, "test", i)
	return nil
}
func (p *wPlug) GRPCClient(ctx context.Context, b *GRPCBroker, c *grpc.ClientConn) (interface{}, error) {
	return &wGRPCStub{ctx: ctx, cc: c, b: b}, nil
}

// what Dispense returns on the host
type wStub interface{ Whoami() (int, error) }

type wRPCStub struct {
	c *rpc.Client
	b *MuxBroker
}

func (s *wRPCStub) Whoami() (int, error) {
	var r int
	err := s.c.Call("Plugin.Whoami", 0, &r)
	return r, err
}

type wGRPCStub struct {
	ctx context.Context
	cc  *grpc.ClientConn
	b   *GRPCBroker
}

func (s *wGRPCStub) Whoami() (int, error) { return wWhoami(s.cc, s.ctx) }

// a call on a user service of whatever server serves the connection
func wWhoami(cc *grpc.ClientConn, ctx context.Context) (int, error) {
	v, err := wUnary(cc, ctx, func(srv *wGRPCServer, sctx context.Context) (any, error) {
		impl, ok := srv.user["test"]
		if !ok {
			return nil, wErrUnimplemented
		}
		var r int
		if err := impl.(*wImpl).Whoami(0, &r); err != nil {
			return nil, err
		}
		return r, nil
	})
	if err != nil {
		return 0, err
	}
	return v.(int), nil
}

var wHandshake0 = HandshakeConfig{ProtocolVersion: 1, MagicCookieKey: "COOKIE", MagicCookieValue: "V"}

// the server factory a plugin author passes (plugin.DefaultGRPCServer does the same)
func wNewGRPCServer(opts []grpc.ServerOption) *grpc.Server { return grpc.NewServer(opts...) }

func wCut(kv string) (string, string, bool) { return strings.Cut(kv, "=") }
