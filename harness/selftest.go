package plugin

// Engine regression harness run by `gpv selftest`: each case is a small program whose outcome is known.
func harnessSelftest() {
	// parallel phi assignment: a loop that swaps two variables
	a, b := 1, 2
	for i := 0; i < 3; i++ {
		a, b = b, a
	}
	vAssert(a == 2 && b == 1, "selftest: swap in a loop")
	// symbolic branch + arithmetic
	x := vNondetInt("x")
	vAssume(x >= 0 && x < 10)
	y := x
	if x > 4 {
		y = x - 5
	}
	vAssert(y >= 0 && y < 5, "selftest: branch arithmetic")
	// rendezvous and a mutex-protected counter
	ch := make(chan int)
	go func() { ch <- 7 }()
	vAssert(<-ch == 7, "selftest: rendezvous")
	vCover("selftest-done")
	vDone()
}

// harnessSelftestBad must be reported: the assertion fails for x == 9.
func harnessSelftestBad() {
	x := vNondetInt("x")
	vAssume(x >= 0 && x < 10)
	vAssert(x != 9, "selftest: must fail")
	vDone()
}
