#!/bin/bash
# Re-applies every seeded change (in a scratch worktree, /repo untouched) and re-runs the quick check of the property it
# breaks: every seed must still be reported (exit 1). Prints one line per seed; exit 1 if any seed is no longer caught.
W=/tmp/mut/RERUN
git -C /repo worktree remove --force $W 2>/dev/null
git -C /repo worktree add -q --detach $W HEAD || exit 2
export VERIF_REPO=$W VERIF_OUT=/tmp/mut/RERUN-out
mkdir -p $VERIF_OUT
bad=0
for d in /verif/seeded/*/; do
  n=$(basename $d)
  [ -f $d/patch.diff ] || continue
  id=$(python3 -c "import json;print(json.load(open('$d/meta.json'))['breaks_property'])")
  (cd $W && git checkout -q -- . && git apply $d/patch.diff 2>/dev/null) || { echo "$n: patch no longer applies (see meta.json note)"; continue; }
  out=$(cd /verif && timeout 1200 ./gpv check $id 2>&1); rc=$?
  exp=$(python3 -c "import json;print(json.load(open('$d/meta.json')).get('expected_uncaught',False))")
  if [ $rc -eq 1 ]; then echo "$n: caught by $id ($(echo "$out" | grep -c '^VIOLATION') violation lines)";
  elif [ "$exp" = "True" ]; then echo "$n: not caught by $id (exit $rc) - documented miss, see meta.json";
  else echo "$n: NOT CAUGHT by $id (exit $rc)"; bad=1; fi
done
(cd $W && git checkout -q -- .)
git -C /repo worktree remove --force $W
rm -rf /tmp/mut/RERUN-out
exit $bad
